#!/bin/sh
# ./multiseed.sh "<seeds>" [tier]  - runs every registered check with each seed on the current tree; prints non-OK results.
# (used to hunt seed-dependent false alarms before a tier is trusted)
tier=${2:-quick}
for s in $1; do
  for c in C01 C02 C03 C04 C05 C06 C07 C08 C09 C10 C11 C12 C13 C14 C15 C16 C17 C18 C19; do
    out=$(VERIF_SEED=$s ./check $c --tier $tier 2>&1); rc=$?
    last=$(echo "$out" | tail -1 | cut -c1-160)
    echo "seed=$s $c exit=$rc $last"
    if [ $rc -ne 0 ]; then echo "$out" | grep -v "^  \[" | tail -6 | cut -c1-400; fi
  done
done
