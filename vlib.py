# Shared machinery for /verif/check: scratch dirs, Go harness build, TLC runs,
# trace-validation sharding, evidence files, known findings, verdicts.
import os, sys, json, subprocess, tempfile, shutil, time, hashlib, re, concurrent.futures

VERIF = os.path.dirname(os.path.abspath(__file__))
REPO = os.environ.get("VERIF_REPO", "/repo")
SPEC = os.path.join(VERIF, "spec")
JARS = "/opt/veriftools/tla/tla2tools.jar:/opt/veriftools/tla/CommunityModules-deps.jar"
NCPU = min(16, os.cpu_count() or 4)

GOENV = dict(os.environ, GOFLAGS="-mod=mod", GOPROXY="off", GOSUMDB="off", GOTOOLCHAIN="local",
             CGO_ENABLED=os.environ.get("CGO_ENABLED", "1"))


class MachineryError(Exception):
    """The check could not reach a verdict (exit 2, never a VIOLATION)."""


class Scratch:
    """A scratch directory outside /repo and /verif, removed on exit."""

    def __init__(self, tag):
        self.tag = tag

    def __enter__(self):
        self.dir = tempfile.mkdtemp(prefix="verif-%s-" % self.tag)
        return self.dir

    def __exit__(self, *a):
        shutil.rmtree(self.dir, ignore_errors=True)


def seed():
    try:
        return int(os.environ.get("VERIF_SEED", "1"))
    except ValueError:
        return 1


def sh(cmd, cwd=None, env=None, timeout=None, check=True):
    p = subprocess.run(cmd, cwd=cwd, env=env, timeout=timeout, stdout=subprocess.PIPE,
                       stderr=subprocess.STDOUT, text=True, shell=isinstance(cmd, str))
    if check and p.returncode != 0:
        raise MachineryError("command failed (%d): %s\n%s" % (p.returncode, cmd, p.stdout[-4000:]))
    return p


# --------------------------------------------------------------------------
# Go harness

def build_harness(scratch, race=False, tags="verif"):
    """Builds /verif/harness against /repo's current working tree (hooks on).
    Copies of internal/zex and internal/tinycpm are taken at build time."""
    hdir = os.path.join(scratch, "harness-race" if race else "harness")
    shutil.copytree(os.path.join(VERIF, "harness"), hdir)
    # go.mod points at REPO
    gm = open(os.path.join(hdir, "go.mod")).read().replace("=> /repo", "=> " + REPO)
    open(os.path.join(hdir, "go.mod"), "w").write(gm)
    shutil.copy(os.path.join(REPO, "go.sum"), os.path.join(hdir, "go.sum"))
    for pkg in ("zex", "tinycpm"):
        src = os.path.join(REPO, "internal", pkg)
        dst = os.path.join(hdir, "x" + pkg)
        if os.path.isdir(src) and os.path.isdir(dst):
            for f in os.listdir(src):
                if f.endswith(".go") and not f.endswith("_test.go"):
                    shutil.copy(os.path.join(src, f), os.path.join(dst, f))
    out = os.path.join(scratch, "verifh" + ("-race" if race else ""))
    # first with the hook bindings; a tree whose Run was rewritten without the hooks still builds without them
    for tg in (tags + " verifhooks", tags):
        cmd = ["go", "build", "-tags", tg, "-o", out]
        if race:
            cmd.insert(2, "-race")
        cmd.append(".")
        p = sh(cmd, cwd=hdir, env=GOENV, timeout=600, check=False)
        if p.returncode == 0:
            return out
    raise MachineryError("harness does not build against %s:\n%s" % (REPO, p.stdout[-3000:]))


# --------------------------------------------------------------------------
# TLC

def tlc_cmd(module, cfg, metadir, tmpdir, workers=1, heap="3g", extra=()):
    return ["java", "-XX:+UseSerialGC", "-Xmx" + heap, "-Xss64m", "-Djava.io.tmpdir=" + tmpdir,
            "-cp", JARS, "tlc2.TLC", "-workers", str(workers), "-metadir", metadir,
            "-config", cfg] + list(extra) + [module]


def stage_spec(scratch, sub=()):
    """Copies the spec modules (and the given sub-directories' files) into a flat dir."""
    d = tempfile.mkdtemp(prefix="spec-", dir=scratch)
    for f in os.listdir(SPEC):
        if f.endswith(".tla"):
            shutil.copy(os.path.join(SPEC, f), d)
    for s in sub:
        for f in os.listdir(os.path.join(SPEC, s)):
            shutil.copy(os.path.join(SPEC, s, f), d)
    return d


def run_tlc(scratch, module, cfg, sub=(), env=None, workers=1, heap="3g", timeout=1800, extra=()):
    """Runs TLC in a private copy of the spec; returns (returncode, output)."""
    d = stage_spec(scratch, sub)
    meta = tempfile.mkdtemp(prefix="meta-", dir=scratch)
    e = dict(os.environ)
    e.pop("JAVA_TOOL_OPTIONS", None)
    if env:
        e.update(env)
    cmd = tlc_cmd(module, cfg, meta, meta, workers, heap, extra)
    try:
        p = subprocess.run(cmd, cwd=d, env=e, timeout=timeout, stdout=subprocess.PIPE,
                           stderr=subprocess.STDOUT, text=True)
    except subprocess.TimeoutExpired:
        raise MachineryError("TLC timeout on %s" % module)
    finally:
        shutil.rmtree(meta, ignore_errors=True)
    return p.returncode, p.stdout


def tlc_stats(out):
    """(generated, distinct) from TLC's summary line."""
    m = re.findall(r"(\d+) states generated, (\d+) distinct states found", out)
    if not m:
        return 0, 0
    g, d = m[-1]
    return int(g), int(d)


def validate_traces(scratch, files, timeout=1800, module="Z80Trace.tla", cfg="Z80Trace.cfg", heap="3g", sub=("trace",)):
    """Runs the trace specification over every ndjson file (one TLC per file,
    in parallel).  Returns a list of per-file results:
    {file, lines, consumed, bad:[...], cov:{...}, states}"""
    d = stage_spec(scratch, sub)

    def one(f):
        nlines = sum(1 for _ in open(f))
        meta = tempfile.mkdtemp(prefix="meta-", dir=scratch)
        e = dict(os.environ, TRACE=f)
        e.pop("JAVA_TOOL_OPTIONS", None)
        cmd = tlc_cmd(module, cfg, meta, meta, 1, heap)
        try:
            p = subprocess.run(cmd, cwd=d, env=e, timeout=timeout, stdout=subprocess.PIPE,
                               stderr=subprocess.STDOUT, text=True)
        except subprocess.TimeoutExpired:
            raise MachineryError("TLC timeout validating %s" % f)
        finally:
            shutil.rmtree(meta, ignore_errors=True)
        m = re.search(r'<<"TRACE-RESULT", "(.*)">>', p.stdout)
        if not m:
            raise MachineryError("trace validation produced no result for %s:\n%s" % (f, p.stdout[-3000:]))
        res = json.loads(json.loads('"' + m.group(1) + '"'))
        if res["consumed"] != nlines:
            raise MachineryError("trace %s: %d of %d lines consumed" % (f, res["consumed"], nlines))
        g, dist = tlc_stats(p.stdout)
        if isinstance(res.get("cov"), list):
            res["cov"] = {}
        return dict(file=f, lines=nlines, consumed=res["consumed"], bad=res["bad"], cov=res["cov"],
                    kf=res.get("kf") or [], states=dist, transitions=g)

    with concurrent.futures.ThreadPoolExecutor(max_workers=NCPU) as ex:
        return list(ex.map(one, files))


def merge_cov(results):
    cov = {}
    for r in results:
        for k, v in r["cov"].items():
            cov[k] = cov.get(k, 0) + v
    return cov


def read_lines(path, lo, hi):
    """Lines lo..hi (1-based, inclusive) of a file."""
    out = []
    with open(path) as f:
        for i, line in enumerate(f, 1):
            if i > hi:
                break
            if i >= lo:
                out.append(line.rstrip("\n"))
    return out


def group_of(path, line):
    """The events from the last init event at or before `line` up to `line`."""
    start = 1
    buf = []
    with open(path) as f:
        for i, ln in enumerate(f, 1):
            if i > line:
                break
            if ln.startswith('{"e":"i"'):
                start = i
                buf = []
            buf.append(ln.rstrip("\n"))
    return start, buf


# --------------------------------------------------------------------------
# evidence, findings, verdicts

def write_evidence(pid, tier, level, coverage, wall, violations, assumptions):
    os.makedirs(os.path.join(VERIF, "evidence"), exist_ok=True)
    ev = dict(property_id=pid, tier=tier, seed=seed(), level=level, coverage=coverage,
              assumptions=assumptions, wall_s=round(wall, 2), violations=violations)
    tmp = os.path.join(VERIF, "evidence", pid + ".json.tmp")
    json.dump(ev, open(tmp, "w"), indent=1)
    os.replace(tmp, os.path.join(VERIF, "evidence", pid + ".json"))


def known_findings():
    p = os.path.join(VERIF, "known_findings.json")
    if not os.path.exists(p):
        return []
    return json.load(open(p))["findings"]


def save_replay(pid, name, obj):
    d = os.path.join(VERIF, "replays", pid)
    os.makedirs(d, exist_ok=True)
    p = os.path.join(d, name + ".json")
    json.dump(obj, open(p, "w"), indent=1)
    return p


def spec_hash(sub=()):
    h = hashlib.sha256()
    paths = [os.path.join(SPEC, f) for f in sorted(os.listdir(SPEC)) if f.endswith(".tla")]
    for s in sub:
        paths += [os.path.join(SPEC, s, f) for f in sorted(os.listdir(os.path.join(SPEC, s)))]
    for p in paths:
        h.update(open(p, "rb").read())
    return h.hexdigest()[:16]


def run_go_fuzz(scratch, fuzztime, target="FuzzStep"):
    """Coverage-guided fuzzing of the real package with the harness' fuzz target; returns the corpus dir."""
    hdir = os.path.join(scratch, "harness")
    if not os.path.isdir(hdir):
        raise MachineryError("harness not built")
    cdir = os.path.join(scratch, "fuzzcache")
    os.makedirs(cdir, exist_ok=True)
    for tg in ("verif verifhooks", "verif"):
        p = sh(["go", "test", "-tags", tg, "-run", "^$", "-fuzz", "^%s$" % target, "-fuzztime", fuzztime,
                "-test.fuzzcachedir", cdir, "."], cwd=hdir, env=GOENV, timeout=3600, check=False)
        if "build failed" in p.stdout or "undefined:" in p.stdout:
            continue
        break
    crash = "FAIL" in p.stdout and "Failing input written" in p.stdout
    return cdir, p.stdout, crash
