# ./check selftest [seed ids...] [--all-checks] [--jobs N]
# Applies each seeded fault (/verif/seeded/<id>/patch.diff) to a scratch worktree of /repo
# (outside /repo and /verif, removed afterwards), runs the quick tier of the target property
# (or of every registered check with --all-checks) against it via VERIF_REPO, and records
# which checks turned red.  Nothing is ever applied to /repo itself here.
import os, sys, json, subprocess, tempfile, shutil, time, concurrent.futures
import vlib

SEEDED = os.path.join(vlib.VERIF, "seeded")


def registered():
    m = json.load(open(os.path.join(vlib.VERIF, "MANIFEST.json")))
    return [c["property_id"] for c in m["checks"]]


def run_one(sid, checks):
    d = os.path.join(SEEDED, sid)
    wt = tempfile.mkdtemp(prefix="verif-seed-%s-" % sid)
    os.rmdir(wt)
    out = {}
    try:
        subprocess.check_call(["git", "-C", "/repo", "worktree", "add", "-q", "--detach", wt, "HEAD"])
        p = subprocess.run(["git", "-C", wt, "apply", os.path.join(d, "patch.diff")], stdout=subprocess.PIPE,
                           stderr=subprocess.STDOUT, text=True)
        if p.returncode != 0:     # the tree moved on (hook commit): fall back to a 3-way merge
            p = subprocess.run(["git", "-C", wt, "apply", "-3", os.path.join(d, "patch.diff")], stdout=subprocess.PIPE,
                               stderr=subprocess.STDOUT, text=True)
        if p.returncode != 0:
            return sid, {"error": "patch does not apply: " + p.stdout[-300:]}
        b = subprocess.run(["go", "build", "./..."], cwd=wt, env=vlib.GOENV, stdout=subprocess.PIPE,
                           stderr=subprocess.STDOUT, text=True)
        if b.returncode != 0:
            return sid, {"error": "patched tree does not build: " + b.stdout[-300:]}
        for pid in checks:
            env = dict(os.environ, VERIF_REPO=wt, VERIF_SELFTEST="1")
            t = time.time()
            q = subprocess.run([os.path.join(vlib.VERIF, "check"), pid, "--tier", "quick"], env=env, cwd=vlib.VERIF,
                               stdout=subprocess.PIPE, stderr=subprocess.STDOUT, text=True)
            viol = [l for l in q.stdout.splitlines() if l.startswith("VIOLATION")]
            key = pid if vlib.seed() == 1 else "%s@seed%d" % (pid, vlib.seed())
            out[key] = {"exit": q.returncode, "violations": len(viol), "wall_s": round(time.time() - t, 1),
                        "first": (q.stdout.splitlines()[([i for i, l in enumerate(q.stdout.splitlines()) if l.startswith("VIOLATION")] or [0])[0]:][:2]
                                  if viol else q.stdout.splitlines()[-2:])}
    finally:
        subprocess.call(["git", "-C", "/repo", "worktree", "remove", "--force", wt])
        shutil.rmtree(wt, ignore_errors=True)
    return sid, out


def main(args):
    allchecks = "--all-checks" in args
    jobs = 1
    if "--jobs" in args:
        i = args.index("--jobs")
        jobs = int(args[i + 1])
        del args[i:i + 2]
    ids = [a for a in args if not a.startswith("--")] or sorted(os.listdir(SEEDED))
    ids = [i for i in ids if os.path.exists(os.path.join(SEEDED, i, "patch.diff"))]
    reg = registered()
    # evidence files are rewritten by the checks: keep the ones of the unchanged tree
    evdir = os.path.join(vlib.VERIF, "evidence")
    keep = tempfile.mkdtemp(prefix="verif-evkeep-")
    for f in os.listdir(evdir):
        shutil.copy(os.path.join(evdir, f), keep)
    results = {}
    resfile = os.path.join(SEEDED, "RESULTS.json")
    if os.path.exists(resfile):
        results = json.load(open(resfile))
    try:
        with concurrent.futures.ThreadPoolExecutor(max_workers=jobs) as ex:
            futs = []
            for sid in ids:
                meta = json.load(open(os.path.join(SEEDED, sid, "meta.json")))
                target = meta.get("property", sid[:3])
                if meta.get("expect") == "green" and meta.get("checks") and not allchecks:
                    checks = [c for c in meta["checks"] if c in reg]      # the checks its files can influence
                else:
                    checks = reg if (allchecks or meta.get("expect") == "green") else ([target] if target in reg else [])
                if not checks:
                    print("%s: target %s has no registered check yet" % (sid, target))
                    continue
                futs.append(ex.submit(run_one, sid, checks))
            for f in futs:
                sid, out = f.result()
                if "error" in out:
                    print("%s: %s" % (sid, out["error"]))
                    continue
                target = json.load(open(os.path.join(SEEDED, sid, "meta.json"))).get("property", sid[:3])
                results.setdefault(sid, {}).update(out)
                red = sorted(p.split("@")[0] for p, r in out.items() if isinstance(r, dict) and r.get("exit") == 1)
                broken = sorted(p.split("@")[0] for p, r in out.items() if isinstance(r, dict) and r.get("exit") not in (0, 1))
                out_by_pid = {p.split("@")[0]: r for p, r in out.items()}
                print("%s target=%s red=%s%s" % (sid, target, red, (" MACHINERY-ERROR=%s" % broken) if broken else ""))
                if target in out_by_pid and out_by_pid[target].get("exit") != 1:
                    print("   MISSED by %s: %s" % (target, out_by_pid[target].get("first")))
                if target == "none" and (red or broken):
                    for p in red + broken:
                        print("   FALSE ALARM / BROKEN on a property-preserving change: %s: %s" % (p, out_by_pid[p].get("first")))
    finally:
        for f in os.listdir(keep):
            shutil.copy(os.path.join(keep, f), evdir)
        shutil.rmtree(keep, ignore_errors=True)
        shutil.rmtree(os.path.join(vlib.VERIF, "replays"), ignore_errors=True)
    json.dump(results, open(resfile, "w"), indent=1, sort_keys=True)
    return 0
