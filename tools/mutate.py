#!/usr/bin/env python3
"""Mutation campaign: how many small source changes that survive the repository's own tests are caught by the checks?

  tools/mutate.py --n 200 --seed 1 --checks "C01 C05 C14" --out tools/mutation_results.json

For each sampled mutant (one-token change in the emulator sources) in a scratch worktree of /repo:
  1. go build ./...            (else: discarded, "does not compile")
  2. go test ./...             (the 375 tests; a failure = killed by the existing suite, discarded)
  3. the quick tier of the listed checks, in order, stopping at the first VIOLATION
     (VERIF_REPO points at the worktree; nothing is applied to /repo)
A mutant that survives 2 and 3 is either equivalent (no observable change) or a blind spot: listed for inspection.
"""
import os, sys, re, json, random, subprocess, tempfile, shutil, argparse, time

VERIF = os.path.dirname(os.path.dirname(os.path.abspath(__file__)))
ENV = dict(os.environ, GOFLAGS="-mod=mod", GOPROXY="off", GOSUMDB="off", GOTOOLCHAIN="local")
FILES = ["accum.go", "cpu.go", "op_arith16.go", "op_arith8.go", "op_bitop.go", "op_callret.go", "op_ctrl.go", "op_exbtsg.go",
         "op_inout.go", "op_jump.go", "op_load16.go", "op_load8.go", "op_rotateshift.go", "operation.go", "memio.go", "flag.go"]

MASKS = ["maskC", "maskN", "maskPV", "maskH", "maskZ", "maskS", "mask3", "mask5", "maskS53", "mask53"]


def candidates(line):
    """(description, new line) for every applicable one-token mutation of a source line."""
    out = []
    s = line
    comment = ""
    if "//" in s and '"' not in s:          # mutate code only, never comment text
        k = s.index("//")
        s, comment = s[:k], s[k:]
    out_raw = out
    if s.strip() == "" or s.strip().startswith("//") or "vhook(" in s or s.strip().startswith("case ") and "," in s:
        return out
    def sub(pat, rep, desc, count=1):
        for m in list(re.finditer(pat, s))[:2]:
            new = s[:m.start()] + (rep(m) if callable(rep) else rep) + s[m.end():]
            if new != s:
                out.append((desc, new))
    # operators aimed at the control logic (cpu.go, memio.go, tinycpm)
    def sub2(pat, rep, desc):
        for m in list(re.finditer(pat, s))[:2]:
            new = s[:m.start()] + rep + s[m.end():]
            if new != s:
                out.append((desc, new))
    sub(r"\.Hi\b", ".Lo", "Hi->Lo")
    sub(r"\.Lo\b", ".Hi", "Lo->Hi")
    sub(r"\+\+", "--", "++ -> --")
    sub(r"--", "++", "-- -> ++")
    sub(r"\+ 1\b", "- 1", "+1 -> -1")
    sub(r"- 1\b", "+ 1", "-1 -> +1")
    sub(r"\+= 2\b", "+= 1", "+=2 -> +=1")
    sub(r"-= 2\b", "-= 1", "-=2 -> -=1")
    sub(r"!= 0\b", "== 0", "!=0 -> ==0")
    sub(r"== 0\b", "!= 0", "==0 -> !=0")
    sub(r"&&", "||", "&& -> ||")
    sub(r"\|\|", "&&", "|| -> &&")
    sub(r"\bcpu\.IX\b", "cpu.IY", "IX->IY")
    sub(r"\bcpu\.IY\b", "cpu.IX", "IY->IX")
    sub(r"\bBC\b", "DE", "BC->DE")
    sub(r"\bDE\b", "HL", "DE->HL")
    sub(r"\bHL\b", "DE", "HL->DE")
    sub(r"\bIFF1\b", "IFF2", "IFF1->IFF2")
    sub(r"\bIFF2\b", "IFF1", "IFF2->IFF1")
    sub(r"0x0f\b", "0x1f", "0x0f->0x1f")
    sub(r"0x80\b", "0x40", "0x80->0x40")
    sub(r"0x7f\b", "0xff", "0x7f->0xff")
    sub(r"0xfe\b", "0xff", "0xfe->0xff")
    sub(r">> ?7\b", ">> 6", ">>7 -> >>6")
    sub(r"<< ?1\b", "<< 2", "<<1 -> <<2")
    sub(r"\btrue\b", "false", "true->false")
    sub(r"\bfalse\b", "true", "false->true")
    sub2(r"\bNMIType\b", "IMType", "NMIType->IMType")
    sub2(r"\bIMType\b", "NMIType", "IMType->NMIType")
    sub2(r"0x0066\b", "0x0038", "66->38")
    sub2(r"0x0038\b", "0x0066", "38->66")
    sub2(r"\bcase 1\b", "case 2", "case1->2")
    sub2(r"\bcase 2\b", "case 1", "case2->1")
    sub2(r" < ", " <= ", "< -> <=")
    sub2(r" <= ", " < ", "<= -> <")
    sub2(r" > ", " >= ", "> -> >=")
    sub2(r" >= ", " > ", ">= -> >")
    sub2(r"\breturn true\b", "return false", "return true->false")
    sub2(r"\breturn false\b", "return true", "return false->true")
    sub2(r"\bcontinue\b", "break", "continue->break")
    sub2(r"\+ 2\b", "+ 1", "+2 -> +1")
    sub2(r"\+ 3\b", "+ 2", "+3 -> +2")
    sub2(r"& 0xfe\b", "& 0xff", "&fe -> &ff")
    sub2(r"\bData\[0\]", "Data[len(cpu.Interrupt.Data)-1]", "Data[0] -> Data[last]")
    sub2(r"\bcpu\.PC\b", "cpu.SP", "PC->SP")
    sub2(r"0xff\b", "0xfe", "ff->fe")
    sub2(r"\b9\b", "2", "9->2")
    sub2(r"'\$'", "0", "'$'->0")
    for m in re.finditer(r"\bmask(C|N|PV|H|Z|S|3|5|S53|53)\b", s):
        for other in MASKS:
            if other != m.group(0) and random.random() < 0.15:
                out.append(("%s->%s" % (m.group(0), other), s[:m.start()] + other + s[m.end():]))
    # wrong handler in a decode arm: xopINCb -> xopINCc etc. (last letter / register suffix)
    m = re.search(r"\b([xo]op[A-Za-z0-9]+?)([bcdehla])\(cpu\)", s)
    if m:
        for other in "bcdehla":
            if other != m.group(2) and random.random() < 0.3:
                out.append(("%s%s -> %s%s" % (m.group(1), m.group(2), m.group(1), other),
                            s[:m.start(2)] + other + s[m.end(2):]))
    # bit index / register argument in inline decode arms
    m = re.search(r"cpu\.bit(chk|set|res)8b?\((\d), ", s)
    if m:
        nb = (int(m.group(2)) + 1) % 8
        out.append(("bit %s -> %d" % (m.group(2), nb), s[:m.start(2)] + str(nb) + s[m.end(2):]))
    return [(d, n + comment) for d, n in out]


def sh(cmd, cwd, timeout=1800):
    p = subprocess.run(cmd, cwd=cwd, env=ENV, shell=True, stdout=subprocess.PIPE, stderr=subprocess.STDOUT, text=True, timeout=timeout)
    return p.returncode, p.stdout


def main():
    ap = argparse.ArgumentParser()
    ap.add_argument("--n", type=int, default=100)
    ap.add_argument("--seed", type=int, default=1)
    ap.add_argument("--checks", default="C01 C02 C03 C04 C05 C14 C11 C09 C06")
    ap.add_argument("--out", default=os.path.join(VERIF, "tools", "mutation_results.json"))
    ap.add_argument("--files", default=" ".join(FILES))
    ap.add_argument("--target-map", default="", help="file=Cxx+Cyy,file=...: run only these checks for mutants of that file "
                    "(does the check of the property the file implements catch it, not just some check?)")
    a = ap.parse_args()
    random.seed(a.seed)
    wt = tempfile.mkdtemp(prefix="verif-mut-")
    os.rmdir(wt)
    subprocess.check_call(["git", "-C", "/repo", "worktree", "add", "-q", "--detach", wt, "HEAD"])
    results = []
    try:
        pool = []
        for f in a.files.split():
            lines = open(os.path.join(wt, f)).read().split("\n")
            for i, ln in enumerate(lines):
                for desc, new in candidates(ln):
                    pool.append((f, i, desc, new))
        random.shuffle(pool)
        print("mutation pool: %d candidates, sampling %d" % (len(pool), a.n), flush=True)
        done = 0
        for f, i, desc, new in pool:
            if done >= a.n:
                break
            path = os.path.join(wt, f)
            orig = open(path).read()
            lines = orig.split("\n")
            old = lines[i]
            lines[i] = new
            open(path, "w").write("\n".join(lines))
            rec = {"file": f, "line": i + 1, "mutation": desc, "old": old.strip(), "new": new.strip()}
            try:
                rc, out = sh("go build ./... 2>&1 | tail -3", wt)
                if "" != out.strip():
                    rec["status"] = "does not compile"
                    continue
                rc, out = sh("go test -vet=off -count=1 ./... 2>&1 | tail -5", wt)
                if "FAIL" in out or "panic" in out:
                    rec["status"] = "killed by the existing tests"
                    continue
                done += 1
                rec["status"] = "survived all listed checks"
                tmap = dict(kv.split("=") for kv in a.target_map.split(",") if kv)
                checks = tmap[f].split("+") if f in tmap else a.checks.split()
                rec["checks_run"] = checks
                for pid in checks:
                    t = time.time()
                    p = subprocess.run([os.path.join(VERIF, "check"), pid, "--tier", "quick"], cwd=VERIF,
                                       env=dict(os.environ, VERIF_REPO=wt, VERIF_SELFTEST="1"), stdout=subprocess.PIPE,
                                       stderr=subprocess.STDOUT, text=True)
                    if p.returncode == 1:
                        rec["status"] = "caught"
                        rec["caught_by"] = pid
                        rec["wall_s"] = round(time.time() - t, 1)
                        break
                    if p.returncode != 0:
                        rec.setdefault("machinery_errors", []).append({pid: p.stdout[-300:]})
                print(json.dumps(rec), flush=True)
            finally:
                open(path, "w").write(orig)
                results.append(rec)
                json.dump(results, open(a.out, "w"), indent=1)
    finally:
        subprocess.call(["git", "-C", "/repo", "worktree", "remove", "--force", wt])
        shutil.rmtree(os.path.join(VERIF, "replays"), ignore_errors=True)
    surv = [r for r in results if r["status"] == "survived all listed checks"]
    caught = [r for r in results if r["status"] == "caught"]
    print("compiled+passed the suite: %d; caught: %d; survived: %d" % (len(surv) + len(caught), len(caught), len(surv)))
    return 0


if __name__ == "__main__":
    sys.exit(main())
