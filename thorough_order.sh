#!/bin/sh
# ./thorough_order.sh <seed> : thorough tiers, the checks with the newest stages first
for c in C12 C18 C14 C10 C09 C06 C07 C08 C05 C04 C11 C13 C15 C17 C19 C16 C02 C03 C01; do
  out=$(VERIF_SEED=$1 ./check $c --tier thorough 2>&1); rc=$?
  echo "seed=$1 $c exit=$rc $(echo "$out" | tail -1 | cut -c1-160)"
  if [ $rc -ne 0 ]; then echo "$out" | grep -v "^  \[" | tail -8 | cut -c1-500; fi
done
