#!/usr/bin/env python3
"""Regenerates MANIFEST.json from the table below (single source of truth)."""
import json, os

HERE = os.path.dirname(os.path.abspath(__file__))
props = [json.loads(l) for l in open(os.path.join(HERE, "properties.jsonl"))]

# id -> (level, technique, level text, level note, design ref)
CLAIMS = {
    "C19": ("other",
            "TLA+ definition of the BSAVE / cassette containers (CimTools.tla) evaluated by TLC against the outputs of the built command binaries",
            "Both commands are built from /repo and run on boundary and random inputs (image lengths incl. end address exactly "
            "FFFF, offsets 0..FFFF in decimal and hex, default offset, names of length 0..12 and the default name); TLC compares "
            "every output byte for byte with the container the specification defines.",
            "A pure function: constant-level use of TLA+; inputs are generated, not exhaustive.",
            "DESIGN.md section 3 C19"),
    "C18": ("model_checking",
            "TLC executes the BDOS stub (bytes read from the code) in the Z80 TLA+ specification + Run events of the real mini CP/M machine validated by TLC with a console contract",
            "TLC runs the BDOS stub in the specification exhaustively over short strings / byte values and checks the contract; "
            "random programs of function-2/9 calls (strings up to 4096 bytes, every value except '$', page crossings) run on "
            "the real CPU + tinycpm Memory/IO, each Run validated by TLC Step by Step and the captured console bytes, warnings, "
            "final PC/SP compared by TLC with the contract. Some scenarios run two programs on the same CPU with the "
            "console writer reconfigured (with / without WriteByte) in between.",
            "Strings sampled (exhaustive only for length <= 3 on the specification). internal/tinycpm is compiled from a copy taken at check time.",
            "DESIGN.md section 3 C18"),
    "C17": ("other",
            "TLA+ layout specification of the zexdoc/zexall images evaluated by TLC on the image bytes and the dumped Go tables; pinned digests",
            "TLC evaluates ZexTables!Result on the bytes of both canonical images and on the Go tables dumped from a copy of "
            "internal/zex: record count, order, all 65 bytes and the description of each of the 2 x 67 records; the images "
            "are pinned by SHA-256; the tables are dumped and compared a second time after every exported method was "
            "called on the table elements, the returned slices overwritten and private cases appended. Complete for "
            "the finite comparison the property states.",
            "A constant-level use of TLA+ (a layout definition evaluated on data), not a behavioural model.",
            "DESIGN.md section 3 C17"),
    "C15": ("model_checking",
            "sequential TLA+ specification of the byte stores (MemIO) model-checked by TLC + tlc -simulate behaviours replayed on the real types (P) + operation sequences recorded from the real types validated by TLC (T)",
            "TLC exhaustively explores operation sequences of the MemIO specification over boundary lengths/addresses with "
            "its invariants; random and boundary-biased sequences of Get/Set/Put/In/Out/Clone/Clear/Equal over all slice "
            "lengths are executed on the real DumbMemory/DumbIO/MapMemory values and every result is validated by TLC.",
            "Random exploration of histories; DumbMemory.Put only inside the slice (stated precondition).",
            "DESIGN.md section 3 C15"),
    "C13": ("model_checking",
            "PlusCal/TLA+ goroutine model of Run's cancellation hand-off (TLC: safety + liveness, negative variant) + forced schedules recorded at the verif hooks and validated against the model (RunCancelTrace) + -race stress with goroutine accounting + TLC validation of cancelled Run events",
            "TLC exhaustively checks RunCancel.tla (every interleaving of caller, watcher and runner) for the safety and "
            "liveness properties behind the statement, and that removing the deferred cancel() is caught. The real Run is "
            "stressed in a -race build over program kinds x cancellation instants with checks of the returned error, a 2 s "
            "bound, the Step-boundary state (twin + TLC Boundaries), goroutines back to the baseline before the caller's "
            "context is released, and - through the verif hooks - return at the end of the Step in which the flag became visible.",
            "Races and leaks are observed by the Go runtime on the produced executions; timing bounds are generous. If a "
            "refactoring removes the hooks the hook tier reports 'not applicable' and the black-box tier alone decides.",
            "DESIGN.md section 3 C13"),
    "C10": ("model_checking",
            "snapshot/rebuild at every Step boundary with TLC carrying the state + bit-identical twin + memory replacement + long-run twin (2e7 Steps) + parallel CPUs under the Go race detector, every trace validated by TLC",
            "Programs of all instruction classes are stepped while the CPU object is rebuilt from copies of States, memory and "
            "the pending request before almost every Step; the TLA+ trace specification carries its own state across the run "
            "(hidden state shows up as a rejected Step) and a never-rebuilt twin must stay bit-identical. 2..16 CPUs run from "
            "separate goroutines in a -race build, each trace validated independently. The CPU struct is also copied "
            "by value mid-run (the run continues on the copy, the original is overwritten).",
            "Data-race freedom is decided by the Go race detector on the produced executions; TLA+ contributes the per-CPU "
            "oracle. Programs generated, snapshot points enumerated per run.",
            "DESIGN.md section 3 C10"),
    "C09": ("model_checking",
            "closed-form whole-operation operators (Z80Block) checked by TLC against iterated Step (MC_Block) + per-Step and whole-run trace validation",
            "TLC checks on the specification that iterating Step equals the closed form of LDIR/LDDR/CPIR/CPDR/INIR/INDR/OTIR/"
            "OTDR for small counts, overlaps and wrap; the real CPU is stepped per Step (validated Step by Step) and to "
            "completion up to 65,536 Steps (BC = 0 / 65,535, B = 0), the whole-run result (Steps, registers, flags, every "
            "changed cell, port log) being checked by TLC against the closed form.",
            "Counts/pointers sampled at the values the property lists plus random. Closed form not applicable when the "
            "operation changes its own opcode bytes.",
            "DESIGN.md section 3 C09"),
    "C07": ("model_checking",
            "two-run recording at EVERY Step boundary + TLC trace validation of all Steps + transparency relation evaluated by TLC (mark/cmp events)",
            "Generated register-transparent programs are run undisturbed and with a request (NMI, IM1, IM2 even/odd, IM0 RST/CALL) "
            "stored before every Step boundary k, enumerated exhaustively per program incl. parked on HALT; every Step of every "
            "run is validated against the TLA+ interrupt logic (pushed word = PC at the boundary) and TLC evaluates the "
            "transparency relation between the final states.",
            "Programs are generated (bounded library of shapes x random bodies). Mode 0 is a known, unrepairable defect (F3): "
            "reported as KNOWN-FINDING via the named outcome 'INT0 as-coded'; any other non-transparency is a violation.",
            "DESIGN.md section 3 C07"),
    "C06": ("model_checking",
            "TLA+ interrupt logic (Z80Int: named outcomes) model-checked by TLC (MC_Int, action properties) with every sampled explored edge replayed on the real CPU (G) + TLC trace validation of the control-bit matrix and of request/instruction histories (T)",
            "TLC explores MC_Int (control bits x request kinds x EI/DI/RETN/RETI/HALT/IM alphabet, 2.8e5 states quick) checking "
            "MaskableOnlyIfEnabled, NmiAlways, RefusedStays, Dispatch, Handlers, FlipFlops, NoInstrOnAccept; the explored edges "
            "carry the allowed outcomes and are executed on the real CPU. "
            "The complete matrix of request kind x mode x IFF1 x IFF2 x halted/running x PC/SP placement and random histories "
            "of EI/DI/RETN/RETI/HALT/IM with requests raised at arbitrary points (nesting, raised while disabled) are executed "
            "on the real CPU; TLC validates every Step against StepSet (acceptance iff IFF1, flip-flops, pushed PC, dispatch "
            "address, consumed/pending, handler counters).",
            "Control bits exhaustive, data and histories sampled. Mode-0 resume address is judged by C07; EI-delay and RETI's "
            "IFF copy are left open as the property allows.",
            "DESIGN.md section 3 C06"),
    "C08": ("model_checking",
            "TLA+ Run layer (Z80Run: stop rule over StepSet) + Run calls recorded as single trace events expanded by TLC into silent Steps",
            "Generated terminating programs are run through the real CPU.Run with breakpoint sets, stale HALT, pending and "
            "device-raised requests and repeated Run calls; TLC expands every Run event into Steps of the specification and "
            "requires the logged error, registers, memory, port log, access count and pending request to be a result the stop "
            "rule allows.",
            "Programs are generated (random + structured), not enumerated. A request stored by a device during an accepting Step "
            "may be lost or kept (both admitted).",
            "DESIGN.md section 3 C08"),
    "C03": ("model_checking",
            "byte-serial composition of TLC's complete 8-bit tables (rule checked by TLC) + exhaustive Go sweep of CPU.Step over operand pairs",
            "The real CPU.Step is swept over all 2^32 operand pairs x F in {00,01,FE,FF} for every non-doubling ADD/ADC/SBC "
            "encoding (thorough; quick: 4096^2 boundary pairs), all 65,536 values x all 256 F for INC/DEC ss and the doubling "
            "forms, against an oracle composed from TLC's complete ADC/SBC tables by the byte-serial rule that TLC checked "
            "against the 17-bit definitions; catalogue Steps, Steps on read-sensitive memory (program bytes answer "
            "a second read differently) and programs continued on a value copy of the CPU are validated by the trace "
            "specification.",
            "TLC cannot tabulate 2^33 points: the composition rule is a TLC-checked law (boundary set squared) re-validated on "
            "60,000 TLC-evaluated direct points. Trusts TLC and Z80Alu.tla.",
            "DESIGN.md section 3 C03"),
    "C16": ("model_checking",
            "TLC-tabulated accessor operators (spec/Flags.tla, complete domains) + exhaustive Go sweep of the real accessors",
            "GetFlag/SetFlag/ResetFlag for all 256 masks x 256 F x 256 A (whole GPR compared), SetU16/U16/Hi/Lo for all 65,536 "
            "values and the eight constants are compared with tables TLC generated from the set-based definitions in "
            "Flags.tla (themselves checked against the bitwise definitions). Complete for the finite space.",
            "Trusts TLC and the 20-line Flags.tla.",
            "DESIGN.md section 3 C16"),
    "C01": ("model_checking",
            "TLA+ instruction-set specification (Z80Core/Z80Int) + TLC trace validation of recorded real Steps",
            "Every recorded CPU.Step is judged by TLC against StepSet of the TLA+ specification on the whole architectural "
            "state (registers minus R, HALT, memory image, bytes sent to ports). All 7x256 decode points are driven from a "
            "structured pre-state catalogue (wrap, overlap, flag patterns, IFF/IM) and from biased-random states; further "
            "stages: a coverage-guided corpus (go test -fuzz, every kept input validated by TLC), the whole run of prelim.cim "
            "and windows of zexdoc/zexall on the mini CP/M machine, the real DumbMemory/MapMemory types attached directly, "
            "read-sensitive memory (a second read of an address returns another value, writes do not stick), "
            "and Run/Step sequences across replacements of CPU.Memory.",
            "Exhaustive over decode points, structured + random over pre-states (the ALU-shaped part is complete in C02/C03). "
            "Trusts TLC, the transcription of the instruction set into Z80Core.tla and the recording devices.",
            "DESIGN.md section 3 C01"),
    "C04": ("model_checking",
            "TLC theorems on the spec (MC_Ctl: all F x all conditional opcodes, CALL;RET, PUSH;POP) + trace validation of the same families on the real CPU",
            "TLC checks the control-flow theorems on the specification for all 256 F / all 256 B and wrap placements; the "
            "real CPU.Step is run for all 256 F x all 28 conditional opcodes x placements, DJNZ for all B, RST/JP (rr)/PUSH/POP "
            "and the two-step sequences, every Step validated by TLC against the same specification.",
            "Finite control part (F, B, opcodes) exhaustive; addresses sampled at boundaries. Trusts TLC and the spec transcription.",
            "DESIGN.md section 3 C04"),
    "C05": ("model_checking",
            "TLA+ bus micro-operations + TLC trace validation of per-Step access logs recorded by Memory/IO wrappers",
            "Recording Memory/IO devices log every access of every Step; TLC compares the multiset of reads, the multiset of "
            "(address,value) writes and the port log with the specification's micro-operations for all decode points, taken "
            "and untaken conditional forms, pointers at the wrap and on the instruction bytes; histories in which CPU.Memory "
            "is replaced between Steps (the device attached now sees exactly the accesses) and the real memory types "
            "attached directly (contents compared).",
            "Exhaustive over decode points; pre-states structured + random. Access order within a Step is not compared.",
            "DESIGN.md section 3 C05"),
    "C11": ("model_checking",
            "DD/FD pair recording + MirrorOK / NoInterf relations evaluated by TLC + trace validation of both members",
            "For all 512 DD/FD and DDCB/FDCB encodings the real CPU runs the DD form and the FD form from the exchanged state "
            "and again with the other index register changed; TLC evaluates the mirror and non-interference relations on every "
            "recorded pair and validates both members against the specification; every pair is run again on a paging latch "
            "(the k-th access of the Step replaces CPU.Memory, every k) and both forms must agree on which object saw which access.",
            "Exhaustive over encodings; pre-states structured + random. Pairs whose instruction reads its own prefix byte as data are skipped.",
            "DESIGN.md section 3 C11"),
    "C12": ("model_checking",
            "fuzzed Steps under recover() recorded as traces; panic/hang events have no action in the TLA+ trace spec; returned states validated by TLC",
            "Arbitrary byte strings, States (any IM), short memories, nil/short IO and arbitrary interrupt requests are "
            "stepped under recover(); every returned state is validated by TLC against StepSet (unsupported opcodes: consumed / "
            "silicon / prefix-only); a panic is an event the specification rejects. Also: every decode point as the first "
            "instruction of a fresh process, the bundled memory/port types attached directly with words on their last bytes, "
            "generated Run programs (a Run that does not return counts only if the specification halts on every branch).",
            "Random exploration of an infinite input space; totality of the specification itself is checked by TLC evaluating "
            "every decode point without an evaluation gap.",
            "DESIGN.md section 3 C12"),
    "C14": ("model_checking",
            "TLA+ IncR/M1 fetch counting + TLC trace validation over all decode points x starting R values",
            "Every decode point is stepped from starting R values covering all 256 (thorough) with I in {00,7F,80,FF}, plus "
            "multi-Step block repeats and HALT parking; TLC checks R = IncR(R, opcode fetches), bit 7 and I unchanged, and the "
            "LD A,R / LD A,I value and flags.",
            "DDCB/FDCB may count 2 or 3; a Step accepting an interrupt may count 0 or 1 per fetched opcode (property text / looseness policy).",
            "DESIGN.md section 3 C14"),
    "C02": ("model_checking",
            "TLA+ operator tables (TLC, complete domains) + exhaustive Go sweep of CPU.Step + TLC trace validation",
            "TLC tabulates every 8-bit ALU/rotate/bit operator of spec/Z80Alu.tla over its complete domain and checks "
            "23 algebraic laws between the operators; the real CPU.Step is driven over the complete A x operand x F "
            "cube (8.3e9 Steps) of all 559 catalogue encodings and compared with the tables; random Steps, and Steps "
            "of every ALU encoding on read-sensitive memory (an operand read twice differs), are "
            "validated by the TLA+ trace specification. Complete for the finite space the property quantifies over.",
            "Trusts TLC, the transcription of the Z80 ALU rules into Z80Alu.tla (cross-checked by laws incl. DAA's "
            "decimal meaning), and the catalogue theorem binding encodings to operators.",
            "DESIGN.md section 3 C02"),
}

NOT_YET = "check not built yet (work in progress; see DESIGN.md section 3)"

m = {
    "version": 1,
    "setup_cmd": "./check setup",
    "hooks": {"guard": "verif", "enable": "go build -tags verif (the harness is always built with the tag)",
              "baseline_off_cmd": "cd /repo && go test -vet=off -count=1 -timeout 25m ./...",
              "source_commits": [], "add_only": True},
    "engines": [
        {"name": "tlc", "path": "/verif/spec", "serves_properties": sorted(CLAIMS),
         "kind_free_text": "TLA+ specification of the Z80 (Z80Bits/Alu/Core/Int + trace spec + generators) checked with TLC"},
        {"name": "verifh", "path": "/verif/harness", "serves_properties": sorted(CLAIMS),
         "kind_free_text": "Go conformance harness: records real executions as ndjson traces, plays TLC-generated scenarios, exhaustive sweeps"},
    ],
    "checks": [],
    "notes": "Driver: ./check <id> [--tier quick|thorough]; ./check replay <path>. See DESIGN.md.",
    "not_applicable": [],
}
hooks_file = os.path.join(HERE, "hooks.json")
if os.path.exists(hooks_file):
    m["hooks"].update(json.load(open(hooks_file)))
for p in props:
    pid = p["id"]
    if pid in CLAIMS:
        level, tech, text, note, ref = CLAIMS[pid]
        m["checks"].append({
            "property_id": pid,
            "quick_cmd": "./check %s --tier quick" % pid,
            "thorough_cmd": "./check %s --tier thorough" % pid,
            "evidence_file": "/verif/evidence/%s.json" % pid,
            "replay_cmd_template": "./check replay {path}",
            "engine": "tlc+verifh",
            "level_claimed": {"category": level, "text": text, "design_ref": ref},
            "level_note": note,
            "technique": tech,
        })
    else:
        m["not_applicable"].append({"property_id": pid, "reason": NOT_YET})
json.dump(m, open(os.path.join(HERE, "MANIFEST.json"), "w"), indent=1)
print("checks:", [c["property_id"] for c in m["checks"]])
