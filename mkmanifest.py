#!/usr/bin/env python3
"""Regenerates MANIFEST.json from the table below (single source of truth)."""
import json, os

HERE = os.path.dirname(os.path.abspath(__file__))
props = [json.loads(l) for l in open(os.path.join(HERE, "properties.jsonl"))]

# id -> (level, technique, level text, level note, design ref)
CLAIMS = {
    "C02": ("model_checking",
            "TLA+ operator tables (TLC, complete domains) + exhaustive Go sweep of CPU.Step + TLC trace validation",
            "TLC tabulates every 8-bit ALU/rotate/bit operator of spec/Z80Alu.tla over its complete domain and checks "
            "23 algebraic laws between the operators; the real CPU.Step is driven over the complete A x operand x F "
            "cube (8.3e9 Steps) of all 559 catalogue encodings and compared with the tables; random Steps are "
            "validated by the TLA+ trace specification. Complete for the finite space the property quantifies over.",
            "Trusts TLC, the transcription of the Z80 ALU rules into Z80Alu.tla (cross-checked by laws incl. DAA's "
            "decimal meaning), and the catalogue theorem binding encodings to operators.",
            "DESIGN.md section 3 C02"),
}

NOT_YET = "check not built yet (work in progress; see DESIGN.md section 3)"

m = {
    "version": 1,
    "setup_cmd": "./check setup",
    "hooks": {"guard": "verif", "enable": "go build -tags verif (the harness is always built with the tag)",
              "baseline_off_cmd": "cd /repo && go test -vet=off -count=1 -timeout 25m ./...",
              "source_commits": [], "add_only": True},
    "engines": [
        {"name": "tlc", "path": "/verif/spec", "serves_properties": sorted(CLAIMS),
         "kind_free_text": "TLA+ specification of the Z80 (Z80Bits/Alu/Core/Int + trace spec + generators) checked with TLC"},
        {"name": "verifh", "path": "/verif/harness", "serves_properties": sorted(CLAIMS),
         "kind_free_text": "Go conformance harness: records real executions as ndjson traces, plays TLC-generated scenarios, exhaustive sweeps"},
    ],
    "checks": [],
    "notes": "Driver: ./check <id> [--tier quick|thorough]; ./check replay <path>. See DESIGN.md.",
    "not_applicable": [],
}
hooks_file = os.path.join(HERE, "hooks.json")
if os.path.exists(hooks_file):
    m["hooks"].update(json.load(open(hooks_file)))
for p in props:
    pid = p["id"]
    if pid in CLAIMS:
        level, tech, text, note, ref = CLAIMS[pid]
        m["checks"].append({
            "property_id": pid,
            "quick_cmd": "./check %s --tier quick" % pid,
            "thorough_cmd": "./check %s --tier thorough" % pid,
            "evidence_file": "/verif/evidence/%s.json" % pid,
            "replay_cmd_template": "./check replay {path}",
            "engine": "tlc+verifh",
            "level_claimed": {"category": level, "text": text, "design_ref": ref},
            "level_note": note,
            "technique": tech,
        })
    else:
        m["not_applicable"].append({"property_id": pid, "reason": NOT_YET})
json.dump(m, open(os.path.join(HERE, "MANIFEST.json"), "w"), indent=1)
print("checks:", [c["property_id"] for c in m["checks"]])
