package main

// Recording devices and ndjson event emission shared by all drivers.
// Everything goes through the public API of github.com/koron-go/z80.

import (
	"bufio"
	"context"
	"errors"
	"fmt"
	"runtime"
	"sort"
	"strings"
	"time"

	"github.com/koron-go/z80"
)

// MemHash / IoHash mirror Z80Core!MemHash / IoHash (device background contents).
func MemHash(seed int, a int) uint8 {
	return uint8((a*197 + (a/256)*91 + seed*57 + (a/3)*11 + 13) % 256)
}
func IoHash(seed int, port int, k int) uint8 {
	return uint8((port*31 + k*101 + seed*7 + 5) % 256)
}

// FlatMem is a 64 KiB array memory.
type FlatMem struct{ d [65536]uint8 }

func (m *FlatMem) Get(a uint16) uint8    { return m.d[a] }
func (m *FlatMem) Set(a uint16, v uint8) { m.d[a] = v }

// LazyMem is a 64 KiB memory whose background is MemHash(seed, addr).
type LazyMem struct {
	seed int // -1: constant background val
	val  uint8
	ov   map[uint16]uint8
}

func (m *LazyMem) Get(a uint16) uint8 {
	if v, ok := m.ov[a]; ok {
		return v
	}
	if m.seed < 0 {
		return m.val
	}
	return MemHash(m.seed, int(a))
}
func (m *LazyMem) Set(a uint16, v uint8) { m.ov[a] = v }

// DevDesc describes the memory device of an init event.
type DevDesc struct {
	Kind string // "hash" | "const" | "dumb" | "map" | "tinycpm" | "image"
	Seed int    // image: load address
	Val  int
	Len  int
	Img  []int // image: the bytes loaded at Seed over a background of Val
}

// NewInner builds the real memory object for a device description.
//
//	hash  : 64 KiB, background MemHash(seed, addr)
//	const : 64 KiB, background Val
//	dumb  : z80.DumbMemory of Len bytes (zero filled)
//	map   : z80.MapMemory (default 0xC7)
func NewInner(d DevDesc) z80.Memory {
	switch d.Kind {
	case "hash", "volatile":
		return &LazyMem{seed: d.Seed, ov: map[uint16]uint8{}}
	case "const":
		return &LazyMem{seed: -1, val: uint8(d.Val), ov: map[uint16]uint8{}}
	case "map":
		return z80.MapMemory{}
	case "dumb":
		return z80.DumbMemory(make([]uint8, d.Len))
	case "tinycpm":
		return newTinyCPMMemory()
	case "image":
		m := &FlatMem{}
		if d.Val != 0 {
			for a := range m.d {
				m.d[a] = uint8(d.Val)
			}
		}
		for i, b := range d.Img {
			m.d[(d.Seed+i)&0xffff] = uint8(b)
		}
		return m
	}
	panic("bad device")
}

// RecMem records every access made through it.
type RecMem struct {
	// Volatile: addresses >= VBase behave like read-sensitive registers (read-to-clear, FIFO head): the first bus read
	// of an address returns what the inner memory holds, the k-th later one MemHash(VSeed, addr + 7*k); writes there
	// do not stick.
	Volatile bool
	VSeed    int
	VBase    int
	seen     map[uint16]int
	Acc      *int        // shared bus-access counter (memory + ports)
	Hook     func(n int) // called at every access with the running count
	Inner    z80.Memory
	Rd       []uint16
	Wr       [][2]int
	old      map[uint16]uint8 // value before the first write of this Step
	OnGet    func(a uint16)   // optional callback (devices raising interrupts)
	OnAny    func()           // optional callback at every access (read or write)
	Count    int              // total accesses
}

func (m *RecMem) tick() {
	m.Count++
	if m.OnAny != nil {
		m.OnAny()
	}
	if m.Acc != nil {
		*m.Acc++
		if m.Hook != nil {
			m.Hook(*m.Acc)
		}
	}
}

func (m *RecMem) Get(a uint16) uint8 {
	m.tick()
	if m.OnGet != nil {
		m.OnGet(a)
	}
	m.Rd = append(m.Rd, a)
	if m.Volatile && int(a) >= m.VBase {
		k := m.seen[a]
		m.seen[a] = k + 1
		if k > 0 {
			return MemHash(m.VSeed, int(a)+7*k)
		}
	}
	return m.Inner.Get(a)
}
func (m *RecMem) Set(a uint16, v uint8) {
	m.tick()
	if m.old == nil {
		m.old = map[uint16]uint8{}
	}
	if _, ok := m.old[a]; !ok {
		m.old[a] = m.Inner.Get(a)
	}
	m.Wr = append(m.Wr, [2]int{int(a), int(v)})
	if m.Volatile && int(a) >= m.VBase {
		return // the device does not store it
	}
	m.Inner.Set(a, v)
}
func (m *RecMem) Reset() { m.Rd = m.Rd[:0]; m.Wr = m.Wr[:0]; m.old = nil }

// Diff lists the cells whose content differs from before the Step.
func (m *RecMem) Diff() [][2]int {
	var out [][2]int
	seen := map[uint16]bool{}
	for _, w := range m.Wr {
		a := uint16(w[0])
		if seen[a] {
			continue
		}
		seen[a] = true
		if nv := m.Inner.Get(a); nv != m.old[a] {
			out = append(out, [2]int{int(a), int(nv)})
		}
	}
	return out
}

// IODesc describes the port device.
type IODesc struct {
	Kind string // "nil" | "hash" | "dumb"
	Seed int
	Len  int
}

// RecIO records port traffic. Inner nil + Kind hash = computed replies.
type RecIO struct {
	Acc   *int
	Hook  func(n int)
	Desc  IODesc
	Inner z80.IO
	Log   [][3]int
	nin   int
	OnIO  func()
}

func (d *RecIO) tick() {
	if d.Acc != nil {
		*d.Acc++
		if d.Hook != nil {
			d.Hook(*d.Acc)
		}
	}
}

func (d *RecIO) In(p uint8) uint8 {
	d.tick()
	if d.OnIO != nil {
		d.OnIO()
	}
	var v uint8
	if d.Inner != nil {
		v = d.Inner.In(p)
	} else {
		v = IoHash(d.Desc.Seed, int(p), d.nin)
	}
	d.nin++
	d.Log = append(d.Log, [3]int{0, int(p), int(v)})
	return v
}
func (d *RecIO) Out(p uint8, v uint8) {
	d.tick()
	if d.OnIO != nil {
		d.OnIO()
	}
	if d.Inner != nil {
		d.Inner.Out(p, v)
	}
	d.Log = append(d.Log, [3]int{1, int(p), int(v)})
}
func (d *RecIO) Reset() { d.Log = d.Log[:0] } // nin runs on: the k-th read since the device was attached

// Handlers count RETN / RETI notifications.
type Handlers struct{ N, I int }
type retnH struct{ h *Handlers }
type retiH struct{ h *Handlers }

func (r retnH) RETNHandle() { r.h.N++ }
func (r retiH) RETIHandle() { r.h.I++ }

// Machine = a real CPU wired to recording devices.
type Machine struct {
	CPU          *z80.CPU
	Mem          *RecMem
	IO           *RecIO
	H            *Handlers
	Dev          DevDesc
	IOD          IODesc
	lastN, lastI int
	Acc          int
	Con          []int // bytes that reached the tinycpm console writer
	Warn         int   // warnings logged by the tinycpm IO
	ConGen       int   // generation of the console writer configured now
	Stale        int   // bytes that reached a console writer that is no longer the configured one
	SetCon       func(kind string)
	conMark      int
	warnMark     int
	Bare         bool
	NoHN, NoHI   bool
	BareIO       z80.DumbIO // set: the DumbIO is attached to the CPU directly
	before       []uint8    // bare mode: memory image before the Step
	beforeMap    map[uint16]uint8
}

// installHandlers attaches the RETN / RETI notification handlers the scenario asks for (default: both).
func (m *Machine) installHandlers(cpu *z80.CPU) {
	if !m.NoHN {
		cpu.RETNHandler = retnH{m.H}
	}
	if !m.NoHI {
		cpu.RETIHandler = retiH{m.H}
	}
}

func b2i(b bool) int {
	if b {
		return 1
	}
	return 0
}

// Regs in the order of Z80Trace!RegsOf.
func Regs(s *z80.States) [27]int {
	return [27]int{
		int(s.AF.Hi), int(s.AF.Lo), int(s.BC.Hi), int(s.BC.Lo), int(s.DE.Hi), int(s.DE.Lo), int(s.HL.Hi), int(s.HL.Lo),
		int(s.Alternate.AF.Hi), int(s.Alternate.AF.Lo), int(s.Alternate.BC.Hi), int(s.Alternate.BC.Lo),
		int(s.Alternate.DE.Hi), int(s.Alternate.DE.Lo), int(s.Alternate.HL.Hi), int(s.Alternate.HL.Lo),
		int(s.IX >> 8), int(s.IX & 255), int(s.IY >> 8), int(s.IY & 255), int(s.SP), int(s.PC),
		int(s.IR.Hi), int(s.IR.Lo), b2i(s.IFF1), b2i(s.IFF2), s.IM,
	}
}

// SetRegs loads a register vector into States.
func SetRegs(s *z80.States, r [27]int) {
	s.AF.Hi, s.AF.Lo = uint8(r[0]), uint8(r[1])
	s.BC.Hi, s.BC.Lo = uint8(r[2]), uint8(r[3])
	s.DE.Hi, s.DE.Lo = uint8(r[4]), uint8(r[5])
	s.HL.Hi, s.HL.Lo = uint8(r[6]), uint8(r[7])
	s.Alternate.AF.Hi, s.Alternate.AF.Lo = uint8(r[8]), uint8(r[9])
	s.Alternate.BC.Hi, s.Alternate.BC.Lo = uint8(r[10]), uint8(r[11])
	s.Alternate.DE.Hi, s.Alternate.DE.Lo = uint8(r[12]), uint8(r[13])
	s.Alternate.HL.Hi, s.Alternate.HL.Lo = uint8(r[14]), uint8(r[15])
	s.IX = uint16(r[16])<<8 | uint16(r[17])
	s.IY = uint16(r[18])<<8 | uint16(r[19])
	s.SP, s.PC = uint16(r[20]), uint16(r[21])
	s.IR.Hi, s.IR.Lo = uint8(r[22]), uint8(r[23])
	s.IFF1, s.IFF2, s.IM = r[24] != 0, r[25] != 0, r[26]
}

// PendEnc encodes CPU.Interrupt: [] none, [0] NMI, [1, data...] maskable.
func PendEnc(it *z80.Interrupt) []int {
	if it == nil {
		return []int{}
	}
	if it.Type == z80.NMIType {
		return []int{0}
	}
	out := []int{1}
	for _, b := range it.Data {
		out = append(out, int(b))
	}
	return out
}

// PendDec is the inverse of PendEnc.  The request objects are made with the package's own constructors, as a host
// would make them (NMIInterrupt, IM1Interrupt, IM2Interrupt, IM0Interrupt).
func PendDec(p []int) *z80.Interrupt {
	if len(p) == 0 {
		return nil
	}
	if p[0] == 0 {
		return z80.NMIInterrupt()
	}
	d := make([]uint8, len(p)-1)
	for i := range d {
		d[i] = uint8(p[i+1])
	}
	switch {
	case len(d) == 0:
		return z80.IM1Interrupt()
	case len(d) == 1 && d[0]&1 == 0:
		return z80.IM2Interrupt(d[0])
	default:
		return z80.IM0Interrupt(d[0], d[1:]...)
	}
}

// InitSpec is everything an init event says.
type InitSpec struct {
	Nin     int  // reads the computed port device has already answered (its counter runs on)
	Bare    bool // attach the real memory object directly to the CPU (no recording wrapper): type-specific fast paths
	Sid     int  // scenario id (passed through to the init event for replays)
	BareIO  bool // attach the real DumbIO directly (no recording wrapper); Step events carry its contents instead of a port log
	NoHN    bool // no RETNHandler installed
	NoHI    bool // no RETIHandler installed
	R       [27]int
	Halt    bool
	Dev     DevDesc
	IO      IODesc
	Cells   [][2]int
	IOCells [][2]int
	Pend    []int
}

// NewMachine builds the real CPU + devices for an init event.
func NewMachine(is *InitSpec) *Machine {
	m := &Machine{Dev: is.Dev, IOD: is.IO, H: &Handlers{}}
	inner := NewInner(is.Dev)
	for _, c := range is.Cells {
		inner.Set(uint16(c[0]), uint8(c[1]))
	}
	m.Mem = &RecMem{Inner: inner, Acc: &m.Acc}
	if is.Dev.Kind == "volatile" {
		m.Mem.Volatile, m.Mem.VSeed, m.Mem.VBase, m.Mem.seen = true, is.Dev.Seed, is.Dev.Val, map[uint16]int{}
	}
	cpu := &z80.CPU{Memory: m.Mem}
	if is.Bare {
		cpu.Memory = inner
		m.Bare = true
	}
	switch is.IO.Kind {
	case "nil":
	case "hash":
		m.IO = &RecIO{Desc: is.IO, Acc: &m.Acc, nin: is.Nin}
		cpu.IO = m.IO
	case "console":
		m.IO = &RecIO{Desc: is.IO, Inner: newTinyCPMIO(m), Acc: &m.Acc}
		cpu.IO = m.IO
	case "dumb":
		dio := z80.DumbIO(make([]uint8, is.IO.Len))
		for _, c := range is.IOCells {
			dio.Out(uint8(c[0]), uint8(c[1]))
		}
		if is.BareIO {
			m.BareIO = dio
			cpu.IO = dio
		} else {
			m.IO = &RecIO{Desc: is.IO, Inner: dio, Acc: &m.Acc}
			cpu.IO = m.IO
		}
	}
	SetRegs(&cpu.States, is.R)
	cpu.HALT = is.Halt
	cpu.Interrupt = PendDec(is.Pend)
	m.NoHN, m.NoHI = is.NoHN, is.NoHI
	m.installHandlers(cpu)
	m.CPU = cpu
	return m
}

func jInts(xs []int) string {
	var sb strings.Builder
	sb.WriteByte('[')
	for i, x := range xs {
		if i > 0 {
			sb.WriteByte(',')
		}
		fmt.Fprintf(&sb, "%d", x)
	}
	sb.WriteByte(']')
	return sb.String()
}
func jPairs(xs [][2]int) string {
	var sb strings.Builder
	sb.WriteByte('[')
	for i, x := range xs {
		if i > 0 {
			sb.WriteByte(',')
		}
		fmt.Fprintf(&sb, "[%d,%d]", x[0], x[1])
	}
	sb.WriteByte(']')
	return sb.String()
}
func jTriples(xs [][3]int) string {
	var sb strings.Builder
	sb.WriteByte('[')
	for i, x := range xs {
		if i > 0 {
			sb.WriteByte(',')
		}
		fmt.Fprintf(&sb, "[%d,%d,%d]", x[0], x[1], x[2])
	}
	sb.WriteByte(']')
	return sb.String()
}
func jU16(xs []uint16) string {
	ys := make([]int, len(xs))
	for i, x := range xs {
		ys[i] = int(x)
	}
	return jInts(ys)
}

// EmitInit writes an init event.
func EmitInit(w *bufio.Writer, is *InitSpec) {
	r := is.R
	img := ""
	if is.Nin != 0 {
		img = fmt.Sprintf(`,"nin":%d`, is.Nin)
	}
	if is.Bare {
		img += `,"bare":true`
	}
	if is.Dev.Kind == "image" {
		img += `,"img":` + jInts(is.Dev.Img)
	}
	if is.NoHN || is.NoHI {
		img += fmt.Sprintf(`,"hcfg":%d`, b2i(!is.NoHN)+2*b2i(!is.NoHI))
	}
	if is.BareIO {
		img += `,"bareio":true`
	}
	fmt.Fprintf(w, `{"e":"i","sid":%d,"r":%s,"h":%d,"dev":["%s",%d,%d,%d],"io":["%s",%d,%d],"cells":%s,"iocells":%s,"pend":%s%s}`+"\n",
		is.Sid, jInts(r[:]), b2i(is.Halt), is.Dev.Kind, is.Dev.Seed, is.Dev.Val, is.Dev.Len,
		is.IO.Kind, is.IO.Seed, is.IO.Len, jPairs(is.Cells), jPairs(is.IOCells), jInts(is.Pend), img)
}

// StepAndEmit runs one real CPU.Step and writes the step event.
// snapshotMem / bareDiff: in bare mode the memory diff is computed from copies of the contents.
func (m *Machine) snapshotMem() {
	switch src := m.Mem.Inner.(type) {
	case z80.DumbMemory:
		if len(m.before) != len(src) {
			m.before = make([]uint8, len(src))
		}
		copy(m.before, src)
	case z80.MapMemory:
		m.beforeMap = map[uint16]uint8{}
		for k, v := range src {
			m.beforeMap[k] = v
		}
	case *LazyMem:
		m.beforeMap = map[uint16]uint8{}
		for k, v := range src.ov {
			m.beforeMap[k] = v
		}
	default:
		if len(m.before) != 65536 {
			m.before = make([]uint8, 65536)
		}
		for a := 0; a < 65536; a++ {
			m.before[a] = m.Mem.Inner.Get(uint16(a))
		}
	}
}

func (m *Machine) bareDiff() [][2]int {
	var out [][2]int
	switch src := m.Mem.Inner.(type) {
	case z80.DumbMemory:
		for a := range src {
			if src[a] != m.before[a] {
				out = append(out, [2]int{a, int(src[a])})
			}
		}
	case z80.MapMemory:
		seen := map[uint16]bool{}
		for k, v := range src {
			seen[k] = true
			if old, ok := m.beforeMap[k]; !ok && v != 0xc7 || ok && old != v {
				out = append(out, [2]int{int(k), int(v)})
			}
		}
		for k, old := range m.beforeMap {
			if !seen[k] && old != 0xc7 {
				out = append(out, [2]int{int(k), 0xc7})
			}
		}
	case *LazyMem:
		for k, v := range src.ov {
			old, ok := m.beforeMap[k]
			if !ok {
				old = (&LazyMem{seed: src.seed, val: src.val}).Get(k)
			}
			if old != v {
				out = append(out, [2]int{int(k), int(v)})
			}
		}
	default:
		for a := 0; a < 65536; a++ {
			if v := m.Mem.Inner.Get(uint16(a)); v != m.before[a] {
				out = append(out, [2]int{a, int(v)})
			}
		}
	}
	sort.Slice(out, func(i, j int) bool { return out[i][0] < out[j][0] })
	return out
}

func (m *Machine) StepAndEmit(w *bufio.Writer) {
	if m.Bare {
		m.snapshotMem()
	}
	req := m.CPU.Interrupt
	var reqData []uint8
	if req != nil {
		reqData = append([]uint8(nil), req.Data...)
	}
	defer func() {
		// the request object belongs to the device that raised it: Step must not write into it
		if req != nil && string(reqData) != string(req.Data) {
			fmt.Fprintf(w, `{"e":"x","what":"request-mutated","msg":"Step changed Interrupt.Data from %v to %v"}`+"\n", reqData, req.Data)
		}
	}()
	m.Mem.Reset()
	if m.IO != nil {
		m.IO.Reset()
	}
	m.lastN, m.lastI = m.H.N, m.H.I
	m.CPU.Step()
	m.EmitStep(w)
}

// EmitStep writes what the last Step did.
func (m *Machine) EmitStep(w *bufio.Writer) {
	r := Regs(&m.CPU.States)
	var pio [][3]int
	if m.IO != nil {
		pio = m.IO.Log
	}
	if m.Bare {
		ioc := ""
		if m.BareIO != nil { // the port device was attached directly: no port log, its contents instead
			c := make([]int, len(m.BareIO))
			for i, v := range m.BareIO {
				c[i] = int(v)
			}
			ioc = `,"ioc":` + jInts(c)
		}
		fmt.Fprintf(w, `{"e":"s","bare":1,"r":%s,"h":%d,"rd":[],"wr":[],"pio":%s,"md":%s,"hc":[%d,%d],"pend":%s%s}`+"\n",
			jInts(r[:]), b2i(m.CPU.HALT), jTriples(pio), jPairs(m.bareDiff()),
			m.H.N-m.lastN, m.H.I-m.lastI, jInts(PendEnc(m.CPU.Interrupt)), ioc)
		return
	}
	fmt.Fprintf(w, `{"e":"s","r":%s,"h":%d,"rd":%s,"wr":%s,"pio":%s,"md":%s,"hc":[%d,%d],"pend":%s}`+"\n",
		jInts(r[:]), b2i(m.CPU.HALT), jU16(m.Mem.Rd), jPairs(m.Mem.Wr), jTriples(pio), jPairs(m.Mem.Diff()),
		m.H.N-m.lastN, m.H.I-m.lastI, jInts(PendEnc(m.CPU.Interrupt)))
}

// EmitRaise / EmitPoke: environment events.
func EmitRaise(w *bufio.Writer, p []int) { fmt.Fprintf(w, `{"e":"q","pend":%s}`+"\n", jInts(p)) }
func EmitPoke(w *bufio.Writer, cells [][2]int) {
	fmt.Fprintf(w, `{"e":"p","cells":%s}`+"\n", jPairs(cells))
}

// Hangs counts the Run calls of this process that did not return (each leaves a goroutine spinning on a core).
var Hangs int

// RunSpec describes one CPU.Run call of a scenario.
type RunSpec struct {
	BP     []int `json:"bp"`     // break points
	BPNil  bool  `json:"bpnil"`  // leave CPU.BreakPoints nil
	Sched  []int `json:"sched"`  // [at, pend...]: a device stores the request at its at-th bus access
	Cancel int   `json:"cancel"` // > 0: cancel the context at this bus access; -1: cancelled before the call
	BPSwap []int `json:"bpswap"` // [at, addr...]: a callback assigns a NEW BreakPoints map at its at-th bus access
}

// RunAndEmit performs one real CPU.Run and writes the run event.
// A panic or a Run that does not return within the watchdog becomes an "x" event.
func (m *Machine) RunAndEmit(w *bufio.Writer, rs *RunSpec, watchdog time.Duration) bool {
	if m.Bare {
		m.snapshotMem()
	}
	m.Mem.Reset()
	if m.IO != nil {
		m.IO.Reset()
	}
	m.lastN, m.lastI = m.H.N, m.H.I
	m.Acc = 0
	if rs.BPNil {
		m.CPU.BreakPoints = nil
	} else {
		m.CPU.BreakPoints = map[uint16]struct{}{}
		for _, a := range rs.BP {
			m.CPU.BreakPoints[uint16(a)] = struct{}{}
		}
	}
	ctx, cancel := context.WithCancel(context.Background())
	defer cancel()
	if rs.Cancel == -1 {
		cancel()
	}
	gate := make(chan struct{})
	hook := func(n int) {
		if len(rs.Sched) > 0 && n == rs.Sched[0] {
			m.CPU.Interrupt = PendDec(rs.Sched[1:])
		}
		if len(rs.BPSwap) > 0 && n == rs.BPSwap[0] {
			nb := map[uint16]struct{}{}
			for _, a := range rs.BPSwap[1:] {
				nb[uint16(a)] = struct{}{}
			}
			m.CPU.BreakPoints = nb
		}
		if rs.Cancel > 0 && n == rs.Cancel {
			cancel()
			// wait until the watcher goroutine has had every chance to publish the
			// cancellation: Run must then stop at the next Step boundary
			for i := 0; i < 200; i++ {
				runtime.Gosched()
			}
			time.Sleep(2 * time.Millisecond)
		}
	}
	m.Mem.Hook = hook
	if m.IO != nil {
		m.IO.Hook = hook
	}
	type result struct {
		err error
		pan interface{}
	}
	done := make(chan result, 1)
	go func() {
		defer func() {
			if e := recover(); e != nil {
				done <- result{pan: e}
			}
		}()
		done <- result{err: m.CPU.Run(ctx)}
	}()
	_ = gate
	var res result
	select {
	case res = <-done:
	case <-time.After(watchdog):
		Hangs++
		fmt.Fprintf(w, `{"e":"x","what":"hang","msg":"Run did not return within %s","run":{"bp":%s,"sched":%s,"cancel":%d}}`+"\n",
			watchdog, jInts(rs.BP), jInts(rs.Sched), rs.Cancel)
		return false
	}
	m.Mem.Hook = nil
	if m.IO != nil {
		m.IO.Hook = nil
	}
	if res.pan != nil {
		fmt.Fprintf(w, `{"e":"x","what":"panic","msg":%q,"run":{"bp":%s,"sched":%s,"cancel":%d}}`+"\n", fmt.Sprint(res.pan),
			jInts(rs.BP), jInts(rs.Sched), rs.Cancel)
		return false
	}
	errs := "nil"
	switch {
	case res.err == nil:
	case errors.Is(res.err, z80.ErrBreakPoint):
		errs = "bp"
	case errors.Is(res.err, context.Canceled) || errors.Is(res.err, context.DeadlineExceeded):
		errs = "ctx"
	default:
		errs = "other:" + res.err.Error()
	}
	r := Regs(&m.CPU.States)
	var pio [][3]int
	if m.IO != nil {
		pio = m.IO.Log
	}
	bp := rs.BP
	if bp == nil {
		bp = []int{}
	}
	sched := rs.Sched
	if sched == nil {
		sched = []int{}
	}
	extra := ""
	if m.Bare {
		extra = `,"bare":1`
	}
	if m.IOD.Kind == "console" {
		extra += fmt.Sprintf(`,"con":%s,"warn":%d`, jInts(m.Con[m.conMark:]), m.Warn-m.warnMark)
		m.conMark, m.warnMark = len(m.Con), m.Warn
	}
	fmt.Fprintf(w, `{"e":"r","bp":%s,"sched":%s,"bpswap":%s,"cancel":%d,"err":"%s","nacc":%d,"r":%s,"h":%d,"md":%s,"pio":%s,"hc":[%d,%d],"pend":%s%s}`+"\n",
		jInts(bp), jInts(sched), jInts(bpswapOf(rs)), rs.Cancel, errs, m.Acc, jInts(r[:]), b2i(m.CPU.HALT), jPairs(m.memDiff()), jTriples(pio),
		m.H.N-m.lastN, m.H.I-m.lastI, jInts(PendEnc(m.CPU.Interrupt)), extra)
	return true
}

func bpswapOf(rs *RunSpec) []int {
	if rs.BPSwap == nil {
		return []int{}
	}
	return rs.BPSwap
}

func (m *Machine) memDiff() [][2]int {
	if m.Bare {
		return m.bareDiff()
	}
	return m.Mem.Diff()
}
