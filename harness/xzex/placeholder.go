// Package zex: placeholder; replaced at build time by a copy of /repo/internal/zex.
package zex
