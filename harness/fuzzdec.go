package main

// Decoding of coverage-guided fuzz inputs (go test -fuzz) into init events.
// The fuzz target itself has no oracle: it only drives the real code so that
// the Go fuzzing engine can discover inputs reaching new code; the corpus it
// keeps is then converted to scenarios and validated by TLC.

import (
	"bufio"
	"encoding/json"
	"flag"
	"fmt"
	"os"
	"path/filepath"
	"strconv"
	"strings"
)

const fuzzMinLen = 48

// FuzzDecode maps raw bytes to an init event and a number of Steps (1..3).
// layout: 0..19 byte registers, 20..21 SP, 22..23 PC, 24 I, 25 R, 26 iff/im, 27 halt/steps/io,
//
//	28 device seed, 29..36 instruction bytes, 37.. (addrLo, addrHi, value)* , pending request tail
func FuzzDecode(data []byte) (*InitSpec, int, bool) {
	if len(data) < fuzzMinLen {
		return nil, 0, false
	}
	is := &InitSpec{Pend: []int{}}
	for i := 0; i < 20; i++ {
		is.R[i] = int(data[i])
	}
	is.R[20] = int(data[20]) | int(data[21])<<8
	is.R[21] = int(data[22]) | int(data[23])<<8
	is.R[22], is.R[23] = int(data[24]), int(data[25])
	b := data[26]
	is.R[24], is.R[25] = int(b&1), int(b>>1&1)
	is.R[26] = int(b >> 2 & 3)
	if b>>4&7 == 7 {
		is.R[26] = int(int8(data[27])) // rarely an IM outside 0..3
	}
	c := data[27]
	is.Halt = c&1 != 0
	steps := 1 + int(c>>1&1) + int(c>>2&1)
	switch c >> 3 & 3 {
	case 0:
		is.IO = IODesc{Kind: "nil"}
	default:
		is.IO = IODesc{Kind: "hash", Seed: int(data[28]) % 50}
	}
	is.Dev = DevDesc{Kind: "hash", Seed: int(data[28]), Len: 65536}
	pc := is.R[21]
	var cells [][2]int
	rest := data[37:]
	ncell := 3
	for k := 0; k < ncell && len(rest) >= 3; k++ {
		cells = append(cells, [2]int{int(rest[0]) | int(rest[1])<<8, int(rest[2])})
		rest = rest[3:]
	}
	for i := 0; i < 8; i++ {
		cells = append(cells, [2]int{(pc + i) & 0xffff, int(data[29+i])})
	}
	is.Cells = dedupe(cells)
	if len(rest) >= 1 && rest[0]&3 != 0 { // pending request
		switch rest[0] & 3 {
		case 1:
			is.Pend = []int{0}
		default:
			is.Pend = []int{1}
			n := int(rest[0]>>2) & 3
			for i := 0; i < n && 1+i < len(rest); i++ {
				is.Pend = append(is.Pend, int(rest[1+i]))
			}
		}
	}
	return is, steps, true
}

// FuzzSeed builds the raw bytes for a given decode point (seed corpus).
func FuzzSeed(table, op, variant int) []byte {
	d := make([]byte, fuzzMinLen)
	for i := range d {
		d[i] = byte(i*37 + variant*11 + op)
	}
	d[22], d[23] = 0x00, 0x01
	d[20], d[21] = 0x00, 0x80
	d[26] = byte(variant & 15)
	d[27] = byte(8 + variant&6)
	enc := EncBytes(table, op, 5, 0x34, 0x12)
	for i := 0; i < 8; i++ {
		if i < len(enc) {
			d[29+i] = byte(enc[i])
		} else {
			d[29+i] = 0
		}
	}
	d[46] = 0
	return d
}

// corpus2scen converts a Go fuzz corpus directory into scenarios.
func cmdCorpus2Scen(args []string) {
	fs := flag.NewFlagSet("corpus2scen", flag.ExitOnError)
	dir := fs.String("dir", "", "corpus directory")
	out := fs.String("out", "", "scenario ndjson")
	max := fs.Int("max", 20000, "maximum number of entries")
	fs.Parse(args)
	o, err := os.Create(*out)
	if err != nil {
		fmt.Println("MACHINERY-ERROR", err)
		os.Exit(2)
	}
	defer o.Close()
	w := bufio.NewWriter(o)
	defer w.Flush()
	n := 0
	filepath.Walk(*dir, func(p string, info os.FileInfo, err error) error {
		if err != nil || info.IsDir() || n >= *max {
			return nil
		}
		b, err := os.ReadFile(p)
		if err != nil {
			return nil
		}
		lines := strings.Split(string(b), "\n")
		if len(lines) < 2 || !strings.HasPrefix(lines[0], "go test fuzz v1") {
			return nil
		}
		l := strings.TrimSpace(lines[1])
		if !strings.HasPrefix(l, "[]byte(") {
			return nil
		}
		q := strings.TrimSuffix(strings.TrimPrefix(l, "[]byte("), ")")
		s, err := strconv.Unquote(q)
		if err != nil {
			return nil
		}
		is, steps, ok := FuzzDecode([]byte(s))
		if !ok {
			return nil
		}
		n++
		sc := map[string]interface{}{
			"init": map[string]interface{}{"r": is.R[:], "h": b2i(is.Halt), "dev": []interface{}{is.Dev.Kind, is.Dev.Seed, is.Dev.Val, is.Dev.Len},
				"io": []interface{}{is.IO.Kind, is.IO.Seed, is.IO.Len}, "cells": is.Cells, "iocells": [][2]int{}, "pend": is.Pend},
			"ops": [][]interface{}{{"s", steps}},
		}
		j, _ := json.Marshal(sc)
		w.Write(j)
		w.WriteByte('\n')
		return nil
	})
	fmt.Printf("corpus2scen: %d entries\n", n)
}
