package main

// C07: transparency of interrupts at every instruction boundary.
// For each program the real CPU is run undisturbed (group A: init, Steps,
// mark) and then, for every request kind and EVERY boundary k, run again from
// the start for k Steps, the request is stored in CPU.Interrupt, and it runs
// until it is parked on the final HALT with nothing acceptable pending
// (group B_k: init at boundary k, Steps, cmp).  TLC validates every Step and
// evaluates the transparency relation between the two final states.

import (
	"bufio"
	"encoding/json"
	"flag"
	"fmt"
	"os"
	"path/filepath"

	"github.com/koron-go/z80"
)

type TranspScen struct {
	Init ScenInit `json:"init"`
	Reqs [][]int  `json:"reqs"`
	Max  int      `json:"max"`
}

// parked: the last Step executed a HALT and nothing acceptable is pending.
func parked(m *Machine, pcBefore uint16, pendBefore *z80.Interrupt) bool {
	c := m.CPU
	if c.PC != pcBefore || m.Mem.Inner.Get(c.PC) != 0x76 || c.Interrupt != pendBefore {
		return false
	}
	if c.Interrupt == nil {
		return true
	}
	return c.Interrupt.Type != z80.NMIType && (!c.IFF1 || c.IM < 0 || c.IM > 2)
}

// stateInit describes the machine's current state as an init event.
func stateInit(m *Machine, pend []int) *InitSpec {
	is := &InitSpec{R: Regs(&m.CPU.States), Halt: m.CPU.HALT, Dev: m.Dev, IO: m.IOD, Pend: pend}
	if lm, ok := m.Mem.Inner.(*LazyMem); ok {
		for a, v := range lm.ov {
			is.Cells = append(is.Cells, [2]int{int(a), int(v)})
		}
	} else {
		panic("transp needs a LazyMem device")
	}
	return is
}

func runTransp(ts *TranspScen, w *bufio.Writer) (runs int) {
	base := ts.Init.Spec()
	// group A
	a := NewMachine(base)
	EmitInit(w, base)
	n := 0
	for ; n < ts.Max; n++ {
		pc, pd := a.CPU.PC, a.CPU.Interrupt
		a.StepAndEmit(w)
		if parked(a, pc, pd) {
			n++
			break
		}
	}
	if n >= ts.Max {
		fmt.Fprintf(w, `{"e":"x","what":"generator","msg":"undisturbed program did not park on HALT within %d Steps"}`+"\n", ts.Max)
		return 0
	}
	fmt.Fprintln(w, `{"e":"mark"}`)
	for _, req := range ts.Reqs {
		for k := 0; k <= n; k++ {
			b := NewMachine(base)
			for i := 0; i < k; i++ {
				b.CPU.Step()
			}
			b.CPU.Interrupt = PendDec(req)
			b.lastN, b.lastI = b.H.N, b.H.I
			si := stateInit(b, req)
			if b.IO != nil {
				si.Nin = b.IO.nin // the device's read counter runs on, as in the undisturbed run
			}
			EmitInit(w, si)
			ok := false
			for i := 0; i < ts.Max+40; i++ {
				pc, pd := b.CPU.PC, b.CPU.Interrupt
				b.StepAndEmit(w)
				if parked(b, pc, pd) {
					ok = true
					break
				}
			}
			kind := "nmi"
			if req[0] != 0 {
				kind = fmt.Sprintf("im%d", base.R[26])
			}
			if !ok {
				fmt.Fprintf(w, `{"e":"cmp","kind":"%s","k":%d,"parked":0}`+"\n", kind, k)
			} else {
				fmt.Fprintf(w, `{"e":"cmp","kind":"%s","k":%d,"parked":1}`+"\n", kind, k)
			}
			runs++
		}
	}
	return runs
}

func cmdTransp(args []string) {
	fs := flag.NewFlagSet("transp", flag.ExitOnError)
	in := fs.String("in", "", "program scenarios (ndjson)")
	out := fs.String("out", "", "output directory")
	shards := fs.Int("shards", 16, "shards")
	fs.Parse(args)
	f, err := os.Open(*in)
	if err != nil {
		fmt.Println("MACHINERY-ERROR", err)
		os.Exit(2)
	}
	defer f.Close()
	sc := bufio.NewScanner(f)
	sc.Buffer(make([]byte, 1<<20), 64<<20)
	var ws []*bufio.Writer
	var fl []*os.File
	for sh := 0; sh < *shards; sh++ {
		o, err := os.Create(filepath.Join(*out, fmt.Sprintf("trace_%02d.ndjson", sh)))
		if err != nil {
			panic(err)
		}
		fl = append(fl, o)
		ws = append(ws, bufio.NewWriterSize(o, 1<<20))
	}
	i, runs := 0, 0
	for sc.Scan() {
		var ts TranspScen
		if err := json.Unmarshal(sc.Bytes(), &ts); err != nil {
			fmt.Println("MACHINERY-ERROR bad scenario", err)
			os.Exit(2)
		}
		runs += runTransp(&ts, ws[i%*shards])
		i++
	}
	for sh := range ws {
		ws[sh].Flush()
		fl[sh].Close()
	}
	fmt.Printf("transp: %d programs, %d interrupted runs\n", i, runs)
}
