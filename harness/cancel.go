package main

// C13: cancellation of CPU.Run. Black-box stress (decides the verdict) plus a
// hook-gated tier when the package exposes VerifHook.
//
// Trials: program kind x cancellation instant x repetitions, in a -race build.
//  - returned error is the context's error (or nil / ErrBreakPoint when the
//    program ends first)
//  - Run returns within a generous wall-clock bound after the cancellation
//  - the CPU is left at a Step boundary: a Step-driven twin reaches exactly
//    the same state with exactly the same number of bus accesses; gate-based
//    trials are also written as "r" events for TLC (Boundaries)
//  - goroutine accounting: back to the baseline after every Run (checked
//    BEFORE the caller's context is cancelled, so a watcher parked on the
//    caller's context is seen), no goroutine left inside (*CPU).Run

import (
	"bufio"
	"context"
	"encoding/json"
	"errors"
	"flag"
	"fmt"
	"math/rand"
	"os"
	"runtime"
	"strings"
	"sync"
	"time"

	"github.com/koron-go/z80"
)

type cancelFinding struct {
	What    string `json:"what"`
	Program string `json:"program"`
	Mode    string `json:"mode"`
	Detail  string `json:"detail"`
	Seed    int64  `json:"seed"`
	Trial   int    `json:"trial"`
}

func cancelProgram(kind string, r *rand.Rand) *InitSpec {
	is := &InitSpec{R: RandState(r), Pend: []int{}}
	is.R[21], is.R[20] = 0x0100, 0xf000
	is.R[24], is.R[25], is.R[26] = 0, 0, 1
	is.Dev = DevDesc{Kind: "const", Val: 0, Len: 65536}
	is.IO = IODesc{Kind: "hash", Seed: r.Intn(100)}
	var code []int
	switch kind {
	case "jr-loop":
		code = []int{0x18, 0xfe} // JR $
	case "ldir-loop":
		code = []int{0x21, 0x00, 0x40, 0x11, 0x00, 0x50, 0x01, 0x00, 0x00, 0xed, 0xb0, 0x18, 0xf3} // LDIR of 64K, again
	case "io-loop":
		code = []int{0xdb, 0x10, 0xd3, 0x11, 0x3c, 0x18, 0xf9} // IN A,(10h); OUT (11h),A; INC A; JR loop
	case "djnz-loop":
		code = []int{0x06, 0x00, 0x10, 0xfe, 0x18, 0xfa}
	case "nop-sea": // blank memory: a program that never jumps (PC wraps FFFF -> 0000)
		is.Dev = DevDesc{Kind: "const", Val: 0x00, Len: 65536}
	case "inc-sea":
		is.Dev = DevDesc{Kind: "const", Val: 0x3c, Len: 65536}
	case "prefix-sea": // memory reading DD everywhere: every Step consumes an unsupported pair
		is.Dev = DevDesc{Kind: "const", Val: 0xdd, Len: 65536}
	case "fd-sea":
		is.Dev = DevDesc{Kind: "const", Val: 0xfd, Len: 65536}
	case "terminating":
		code = []int{0x06, byte2(r.Intn(200) + 1), 0x3c, 0x10, 0xfd, 0x76}
	case "halt-now":
		code = []int{0x76}
	}
	for i, b := range code {
		is.Cells = append(is.Cells, [2]int{0x0100 + i, b})
	}
	// a device keeps requesting a maskable interrupt that is never taken: interrupts are disabled (none of these
	// programs executes EI), or the mode value is not one of 0..2
	switch r.Intn(6) {
	case 0, 1:
		is.Pend = []int{1, 0xff}
	case 2:
		is.Pend = []int{1, 0xc7}
		is.R[24], is.R[26] = 1, 3
	}
	return is
}

func byte2(v int) int { return v & 255 }

func goroutinesInRun() (int, string) {
	buf := make([]byte, 1<<20)
	n := runtime.Stack(buf, true)
	s := string(buf[:n])
	c := strings.Count(s, "z80.(*CPU).Run")
	return c, s
}

// settle waits until the goroutine count is back at the baseline.
func settle(base int, d time.Duration) (int, bool) {
	deadline := time.Now().Add(d)
	for {
		n := runtime.NumGoroutine()
		if n <= base {
			return n, true
		}
		if time.Now().After(deadline) {
			return n, false
		}
		runtime.Gosched()
		time.Sleep(200 * time.Microsecond)
	}
}

// twinAgrees: a Step-driven CPU started from the same init reaches the machine's
// state with exactly the same number of bus accesses (i.e. Run stopped at a Step boundary).
func twinAgrees(is *InitSpec, m *Machine, maxSteps int) (bool, string) {
	tw := NewMachine(is)
	tw.CPU.HALT = false
	for i := 0; i <= maxSteps; i++ {
		if tw.Acc == m.Acc {
			if tw.CPU.States == m.CPU.States && tw.CPU.HALT == m.CPU.HALT {
				return true, ""
			}
			return false, fmt.Sprintf("after %d whole Steps (%d bus accesses) a Step-driven twin has %v, Run left %v",
				i, tw.Acc, Regs(&tw.CPU.States), Regs(&m.CPU.States))
		}
		if tw.Acc > m.Acc {
			return false, fmt.Sprintf("Run stopped after %d bus accesses, which is inside a Step (twin: %d accesses after %d Steps)",
				m.Acc, tw.Acc, i)
		}
		tw.CPU.Step()
	}
	return false, "twin did not reach the access count"
}

func cmdCancel(args []string) {
	fs := flag.NewFlagSet("cancel", flag.ExitOnError)
	out := fs.String("out", "", "output directory")
	trials := fs.Int("trials", 400, "trials")
	seed := fs.Int64("seed", 1, "seed")
	fs.Parse(args)
	r := rand.New(rand.NewSource(*seed))
	tf, err := os.Create(*out + "/trace_00.ndjson")
	if err != nil {
		panic(err)
	}
	w := bufio.NewWriterSize(tf, 1<<20)
	var findings []cancelFinding
	add := func(f cancelFinding) {
		if len(findings) < 20 {
			findings = append(findings, f)
		}
	}
	var hookMu sync.Mutex
	var stored chan struct{}
	hookEvents := 0
	if HooksAvailable {
		setHook(func(ev string) {
			hookMu.Lock()
			hookEvents++
			ch := stored
			hookMu.Unlock()
			if ev == "watcher-stored" && ch != nil {
				select {
				case ch <- struct{}{}:
				default:
				}
			}
		})
	}
	nonterm := []string{"jr-loop", "ldir-loop", "io-loop", "djnz-loop", "prefix-sea", "fd-sea", "nop-sea", "inc-sea"}
	modes := []string{"before", "gate", "async", "deadline", "never-halt", "never-bp", "gate-hooked", "cause", "deadline-cause"}
	counts := map[string]int{}
	runtime.GC()
	base := runtime.NumGoroutine()
	for t := 0; t < *trials; t++ {
		mode := modes[t%len(modes)]
		kind := nonterm[r.Intn(len(nonterm))]
		if mode == "never-halt" || mode == "never-bp" {
			kind = []string{"terminating", "halt-now"}[r.Intn(2)]
		} else if r.Intn(5) == 0 {
			kind = "terminating"
		}
		if mode == "gate-hooked" && !HooksAvailable {
			mode = "gate"
		}
		counts[mode]++
		is := cancelProgram(kind, r)
		m := NewMachine(is)
		parent, cancelParent := context.WithCancel(context.Background())
		ctx := parent
		var cancel context.CancelFunc = func() {}
		rs := &RunSpec{BPNil: true}
		var cancelledAt time.Time
		var cmu sync.Mutex
		markCancel := func() {
			cmu.Lock()
			if cancelledAt.IsZero() {
				cancelledAt = time.Now()
			}
			cmu.Unlock()
		}
		switch mode {
		case "before":
			cancelParent()
			markCancel()
		case "gate", "gate-hooked":
			at := 1 + r.Intn(400)
			rs.Cancel = at
			ch := make(chan struct{}, 1)
			if mode == "gate-hooked" {
				hookMu.Lock()
				stored = ch
				hookMu.Unlock()
			}
			hook := func(n int) {
				if n == at {
					cancelParent()
					markCancel()
					if mode == "gate-hooked" {
						select { // wait until the watcher has published the flag
						case <-ch:
						case <-time.After(2 * time.Second):
						}
					} else {
						for i := 0; i < 100; i++ {
							runtime.Gosched()
						}
						time.Sleep(time.Millisecond)
					}
				}
			}
			m.Mem.Hook = hook
			m.IO.Hook = hook
		case "async":
			d := time.Duration(r.Intn(2000)) * time.Microsecond
			go func() { time.Sleep(d); cancelParent(); markCancel() }()
		case "deadline":
			ctx, cancel = context.WithTimeout(parent, time.Duration(200+r.Intn(2000))*time.Microsecond)
		case "cause": // cancelled with a cause: Run must still return the context's error (ctx.Err())
			cctx, ccancel := context.WithCancelCause(parent)
			ctx = cctx
			d := time.Duration(r.Intn(1500)) * time.Microsecond
			go func() { time.Sleep(d); ccancel(errors.New("power off")); markCancel() }()
		case "deadline-cause":
			ctx, cancel = context.WithTimeoutCause(parent, time.Duration(200+r.Intn(1500))*time.Microsecond, errors.New("watchdog"))
		case "never-bp":
			rs.BPNil = false
			rs.BP = []int{0x0102}
			m.CPU.BreakPoints = map[uint16]struct{}{0x0102: {}}
		}
		type res struct {
			err error
			pan interface{}
		}
		done := make(chan res, 1)
		start := time.Now()
		go func() {
			defer func() {
				if e := recover(); e != nil {
					done <- res{pan: e}
				}
			}()
			done <- res{err: m.CPU.Run(ctx)}
		}()
		var rr res
		hung := false
		select {
		case rr = <-done:
		case <-time.After(10 * time.Second):
			hung = true
		}
		elapsed := time.Since(start)
		if hung {
			add(cancelFinding{What: "Run did not return within 10 s (cancellation ignored or a Step that never ends)", Program: kind, Mode: mode, Seed: *seed, Trial: t})
			fmt.Fprintf(w, `{"e":"x","what":"hang","msg":"cancel trial %d: %s %s"}`+"\n", t, kind, mode)
			cancelParent()
			cancel()
			break // a goroutine is stuck in Run for good: stop the campaign
		}
		if rr.pan != nil {
			add(cancelFinding{What: "panic in Run", Program: kind, Mode: mode, Detail: fmt.Sprint(rr.pan), Seed: *seed, Trial: t})
			cancelParent()
			cancel()
			continue
		}
		// (a) the returned error
		isCtx := errors.Is(rr.err, context.Canceled) || errors.Is(rr.err, context.DeadlineExceeded)
		term := kind == "terminating" || kind == "halt-now"
		switch {
		case mode == "never-halt" && rr.err != nil:
			add(cancelFinding{What: "Run returned an error although the context was never cancelled", Program: kind, Mode: mode, Detail: fmt.Sprint(rr.err), Seed: *seed, Trial: t})
		case mode == "never-bp" && !errors.Is(rr.err, z80.ErrBreakPoint) && !(kind == "halt-now" && rr.err == nil):
			add(cancelFinding{What: "Run did not stop at the break point", Program: kind, Mode: mode, Detail: fmt.Sprint(rr.err), Seed: *seed, Trial: t})
		case mode != "never-halt" && mode != "never-bp" && mode != "cause" && mode != "deadline-cause" && !term && !isCtx:
			add(cancelFinding{What: "Run returned " + fmt.Sprint(rr.err) + " instead of the context's error", Program: kind, Mode: mode, Seed: *seed, Trial: t})
		case mode != "never-halt" && mode != "never-bp" && term && !isCtx && rr.err != nil:
			add(cancelFinding{What: "unexpected error " + fmt.Sprint(rr.err), Program: kind, Mode: mode, Seed: *seed, Trial: t})
		case isCtx && ctx.Err() == nil:
			add(cancelFinding{What: "context error returned although the context is not done", Program: kind, Mode: mode, Seed: *seed, Trial: t})
		case (mode == "cause" || mode == "deadline-cause") && !term && rr.err != ctx.Err():
			add(cancelFinding{What: "returned error is not the context's error (ctx.Err())", Program: kind, Mode: mode, Detail: fmt.Sprint(rr.err, " vs ", ctx.Err()), Seed: *seed, Trial: t})
		case isCtx && !errors.Is(rr.err, ctx.Err()):
			add(cancelFinding{What: "returned error is not the context's error", Program: kind, Mode: mode, Detail: fmt.Sprint(rr.err, " vs ", ctx.Err()), Seed: *seed, Trial: t})
		}
		// (b) bounded delay
		cmu.Lock()
		ca := cancelledAt
		cmu.Unlock()
		if isCtx && !ca.IsZero() && time.Since(ca) > 2*time.Second {
			add(cancelFinding{What: "Run took more than 2 s to honour the cancellation", Program: kind, Mode: mode, Detail: elapsed.String(), Seed: *seed, Trial: t})
		}
		// (c) left at a Step boundary
		if ok, why := twinAgrees(is, m, 3000000); !ok {
			add(cancelFinding{What: "CPU not left at a Step boundary", Program: kind, Mode: mode, Detail: why, Seed: *seed, Trial: t})
		}
		// promptness with hooks: once the flag store is visible at most the Step in progress completes
		if mode == "gate-hooked" && isCtx {
			// the hook blocked the Step containing access #at until the store; Run must return at that Step's end
			tw := NewMachine(is)
			tw.CPU.HALT = false
			for tw.Acc < rs.Cancel {
				tw.CPU.Step()
			}
			if m.Acc != tw.Acc {
				add(cancelFinding{What: "Run executed further Steps after the cancellation flag was published", Program: kind, Mode: mode,
					Detail: fmt.Sprintf("cancel at access %d (Step ends at %d), Run returned after %d accesses", rs.Cancel, tw.Acc, m.Acc), Seed: *seed, Trial: t})
			}
		}
		// trace event for TLC (small, deterministic trials only)
		if (mode == "gate" || mode == "gate-hooked" || mode == "before" || mode == "never-halt" || mode == "never-bp") &&
			(m.Acc < 700 && !strings.HasSuffix(kind, "-sea") || m.Acc < 40) {
			EmitInit(w, is)
			errs := "nil"
			if isCtx {
				errs = "ctx"
			} else if errors.Is(rr.err, z80.ErrBreakPoint) {
				errs = "bp"
			}
			rg := Regs(&m.CPU.States)
			bp := []int{}
			if !rs.BPNil {
				bp = rs.BP
			}
			fmt.Fprintf(w, `{"e":"r","bp":%s,"sched":[],"bpswap":[],"cancel":%d,"err":"%s","nacc":%d,"r":%s,"h":%d,"md":%s,"pio":%s,"hc":[0,0],"pend":%s}`+"\n",
				jInts(bp), rs.Cancel, errs, m.Acc, jInts(rg[:]), b2i(m.CPU.HALT), jPairs(m.Mem.Diff()), jTriples(m.IO.Log),
				jInts(PendEnc(m.CPU.Interrupt)))
		}
		// (d) goroutine accounting BEFORE the caller's context is released
		if n, ok := settle(base, 2*time.Second); !ok {
			inRun, dump := goroutinesInRun()
			add(cancelFinding{What: fmt.Sprintf("goroutine left behind after Run returned (%d goroutines, baseline %d, %d inside (*CPU).Run)", n, base, inRun),
				Program: kind, Mode: mode, Detail: firstLines(dump, 40), Seed: *seed, Trial: t})
			cancelParent()
			cancel()
			settle(base, time.Second)
			base = runtime.NumGoroutine()
		}
		cancelParent()
		cancel()
		hookMu.Lock()
		stored = nil
		hookMu.Unlock()
	}
	w.Flush()
	tf.Close()
	res := map[string]interface{}{"trials": *trials, "modes": counts, "findings": findings, "hooks": HooksAvailable, "hook_events": hookEvents}
	b, _ := json.Marshal(res)
	os.WriteFile(*out+"/cancel.json", b, 0o644)
	fmt.Printf("cancel: %d trials, %d findings, hooks=%v\n", *trials, len(findings), HooksAvailable)
}

func firstLines(s string, n int) string {
	ls := strings.Split(s, "\n")
	if len(ls) > n {
		ls = ls[:n]
	}
	return strings.Join(ls, "\n")
}
