package main

// Real instruction mixes: windows of a long execution of a program image
// (prelim.cim, zexdoc.cim, zexall.cim on the mini CP/M machine) recorded Step
// by Step for TLC, and a long-run twin (one CPU never rebuilt, one rebuilt
// from copies at varying intervals) for C10.

import (
	"bufio"
	"flag"
	"fmt"
	"math/rand"
	"os"

	tinycpm "verifh/xtinycpm"

	"github.com/koron-go/z80"
)

func loadImage(path string) []int {
	b, err := os.ReadFile(path)
	if err != nil {
		fmt.Println("MACHINERY-ERROR", err)
		os.Exit(2)
	}
	img := make([]int, len(b))
	for i := range b {
		img[i] = int(b[i])
	}
	return img
}

func biosCells() [][2]int {
	mem := tinycpm.NewMemory()
	var cells [][2]int
	for a := 0; a < 65536; a++ {
		if v := mem.Get(uint16(a)); v != 0 {
			cells = append(cells, [2]int{a, int(v)})
		}
	}
	return cells
}

func cmdProgWin(args []string) {
	fs := flag.NewFlagSet("progwin", flag.ExitOnError)
	img := fs.String("img", "", "program image (.cim), loaded at 0100h")
	out := fs.String("out", "", "output trace file")
	windows := fs.Int("windows", 8, "number of windows")
	wlen := fs.Int("len", 150, "Steps per window")
	maxskip := fs.Int("maxskip", 2000000, "maximum Steps skipped between windows")
	seed := fs.Int64("seed", 1, "seed")
	fs.Parse(args)
	r := rand.New(rand.NewSource(*seed))
	image := loadImage(*img)
	is := &InitSpec{Pend: []int{}}
	is.R[21], is.R[20] = 0x0100, 0xfe00
	is.Dev = DevDesc{Kind: "image", Seed: 0x0100, Val: 0, Len: 65536, Img: image}
	is.IO = IODesc{Kind: "console"}
	is.Cells = biosCells()
	m := NewMachine(is)
	flat := m.Mem.Inner.(*FlatMem)
	f, err := os.Create(*out)
	if err != nil {
		panic(err)
	}
	bw := bufio.NewWriterSize(f, 1<<20)
	total := 0
	for k := 0; k < *windows; k++ {
		// skip fast, bypassing the recorder
		skip := 0
		if *maxskip > 0 && k > 0 {
			skip = r.Intn(*maxskip)
		}
		m.CPU.Memory = flat
		for i := 0; i < skip && !parkedOnHalt(m.CPU, flat); i++ {
			m.CPU.Step()
		}
		m.CPU.Memory = m.Mem
		if parkedOnHalt(m.CPU, flat) {
			break
		}
		// init event for the current state: image + every cell that differs from the image memory
		st := &InitSpec{R: Regs(&m.CPU.States), Halt: m.CPU.HALT, Dev: is.Dev, IO: is.IO, Pend: []int{}}
		base := FlatMem{}
		for i, b := range image {
			base.d[(0x0100+i)&0xffff] = uint8(b)
		}
		for a := 0; a < 65536; a++ {
			if flat.d[a] != base.d[a] {
				st.Cells = append(st.Cells, [2]int{a, int(flat.d[a])})
			}
		}
		if m.IO != nil {
			m.IO.nin = 0
		}
		m.lastN, m.lastI = m.H.N, m.H.I
		EmitInit(bw, st)
		for i := 0; i < *wlen; i++ {
			m.StepAndEmit(bw)
			total++
			if parkedOnHalt(m.CPU, flat) {
				break
			}
		}
	}
	bw.Flush()
	f.Close()
	fmt.Printf("progwin: %d recorded Steps\n", total)
}

func parkedOnHalt(c *z80.CPU, mem *FlatMem) bool { return c.HALT && mem.d[c.PC] == 0x76 }

// longtwin: CPU A is never rebuilt, CPU B is rebuilt from copies of States and
// memory at varying intervals; after every Step both must be bit-identical.
func cmdLongTwin(args []string) {
	fs := flag.NewFlagSet("longtwin", flag.ExitOnError)
	img := fs.String("img", "", "program image")
	out := fs.String("out", "", "result JSON")
	steps := fs.Int("steps", 5000000, "Steps")
	fs.Parse(args)
	image := loadImage(*img)
	mk := func() (*z80.CPU, *FlatMem) {
		mem := &FlatMem{}
		for _, c := range biosCells() {
			mem.d[c[0]] = uint8(c[1])
		}
		for i, b := range image {
			mem.d[(0x0100+i)&0xffff] = uint8(b)
		}
		cpu := &z80.CPU{Memory: mem}
		cpu.PC, cpu.SP = 0x0100, 0xfe00
		return cpu, mem
	}
	a, ma := mk()
	b, mb := mk()
	intervals := []int{1, 2, 3, 5, 7, 64, 1000, 4099}
	next, ii := intervals[0], 0
	n, rebuilds := 0, 0
	why := ""
	for n = 0; n < *steps; n++ {
		if parkedOnHalt(a, ma) {
			break
		}
		if n == next {
			nm := &FlatMem{}
			nm.d = mb.d
			nb := &z80.CPU{States: b.States, Memory: nm, HALT: b.HALT}
			b, mb = nb, nm
			rebuilds++
			ii++
			next = n + intervals[ii%len(intervals)]
		}
		a.Step()
		b.Step()
		if a.States != b.States || a.HALT != b.HALT {
			why = fmt.Sprintf("after %d Steps (%d rebuilds): never-rebuilt CPU %v, rebuilt CPU %v", n+1, rebuilds, Regs(&a.States), Regs(&b.States))
			break
		}
		if n%8192 == 0 && ma.d != mb.d {
			why = fmt.Sprintf("after %d Steps the memories differ", n+1)
			break
		}
	}
	if why == "" && ma.d != mb.d {
		why = "final memories differ"
	}
	os.WriteFile(*out, []byte(fmt.Sprintf(`{"steps":%d,"rebuilds":%d,"diverged":%q}`, n, rebuilds, why)), 0o644)
	fmt.Printf("longtwin: %d Steps, %d rebuilds, diverged=%q\n", n, rebuilds, why)
}
