package main

// firstall / first1: every decode point executed as the FIRST instruction of a
// fresh process (package-level state that is built lazily must not matter).

import (
	"bufio"
	"flag"
	"fmt"
	"math/rand"
	"os"
	"os/exec"
	"sync"
)

func cmdFirst1(args []string) {
	fs := flag.NewFlagSet("first1", flag.ExitOnError)
	k := fs.Int("k", 0, "decode point")
	seed := fs.Int64("seed", 1, "seed")
	fs.Parse(args)
	r := rand.New(rand.NewSource(*seed*7907 + int64(*k)))
	is := RandInit(r, *k/256, *k%256)
	is.Pend = []int{}
	if *k%3 == 0 {
		is.Bare = true
		is.Dev = DevDesc{Kind: "map", Val: 0xc7, Len: 65536}
	}
	w := bufio.NewWriter(os.Stdout)
	defer w.Flush()
	m := NewMachine(is)
	EmitInit(w, is)
	safeStep(m, w)
}

func cmdFirstAll(args []string) {
	fs := flag.NewFlagSet("firstall", flag.ExitOnError)
	out := fs.String("out", "", "output directory")
	seed := fs.Int64("seed", 1, "seed")
	stride := fs.Int("stride", 1, "every stride-th decode point")
	_ = fs.Int("shards", 1, "ignored")
	fs.Parse(args)
	self, _ := os.Executable()
	n := NTables * 256
	res := make([][]byte, n)
	var wg sync.WaitGroup
	sem := make(chan struct{}, 16)
	for k := 0; k < n; k += *stride {
		wg.Add(1)
		sem <- struct{}{}
		go func(k int) {
			defer wg.Done()
			defer func() { <-sem }()
			o, err := exec.Command(self, "first1", "-k", fmt.Sprint(k), "-seed", fmt.Sprint(*seed)).Output()
			if err != nil && len(o) == 0 {
				o = []byte(fmt.Sprintf(`{"e":"x","what":"panic","msg":"fresh process for decode point %d died: %v"}`+"\n", k, err))
			}
			res[k] = o
		}(k)
	}
	wg.Wait()
	f, w := openShard(*out, 0)
	for _, o := range res {
		w.Write(o)
	}
	w.Flush()
	f.Close()
}
