package main

// C18: the mini CP/M machine (copy of internal/tinycpm taken at build time).

import (
	"bufio"
	"flag"
	"fmt"
	"log"
	"os"

	tinycpm "verifh/xtinycpm"

	"github.com/koron-go/z80"
)

func newTinyCPMMemory() z80.Memory { return tinycpm.NewMemory() }

type conWriter struct {
	m   *Machine
	gen int
}

func (c conWriter) Write(p []byte) (int, error) {
	for _, b := range p {
		if c.gen != c.m.ConGen {
			c.m.Stale++
			continue
		}
		c.m.Con = append(c.m.Con, int(b))
	}
	return len(p), nil
}

// a writer that also has WriteByte/WriteString (bytes.Buffer, bufio.Writer and the like)
type conByteWriter struct{ conWriter }

func (c conByteWriter) WriteByte(b byte) error { c.Write([]byte{b}); return nil }

func (c conByteWriter) WriteString(s string) (int, error) { return c.Write([]byte(s)) }

type warnWriter struct{ m *Machine }

func (c warnWriter) Write(p []byte) (int, error) { c.m.Warn++; return len(p), nil }

func newTinyCPMIO(m *Machine) z80.IO {
	io := tinycpm.NewIO()
	io.SetStdout(conWriter{m, 0})
	m.SetCon = func(kind string) {
		m.ConGen++
		if kind == "bytew" {
			io.SetStdout(conByteWriter{conWriter{m, m.ConGen}})
		} else {
			io.SetStdout(conWriter{m, m.ConGen})
		}
	}
	io.SetWarnLogger(log.New(warnWriter{m}, "", 0))
	return io
}

// EmitCPM writes what the console and the warning logger received.
func (m *Machine) EmitCPM(w *bufio.Writer, calls string, sp0 int) {
	fmt.Fprintf(w, `{"e":"cpm","calls":%s,"sp0":%d,"con":%s,"warn":%d,"stale":%d}`+"\n", calls, sp0, jInts(m.Con), m.Warn, m.Stale)
}

// cpmdump prints the non-zero cells of a fresh tinycpm memory (the BIOS blocks).
func cmdCpmDump(args []string) {
	fs := flag.NewFlagSet("cpmdump", flag.ExitOnError)
	out := fs.String("out", "", "output JSON")
	fs.Parse(args)
	mem := tinycpm.NewMemory()
	var cells [][2]int
	for a := 0; a < 65536; a++ {
		if v := mem.Get(uint16(a)); v != 0 {
			cells = append(cells, [2]int{a, int(v)})
		}
	}
	os.WriteFile(*out, []byte(fmt.Sprintf(`{"cells":%s,"start":%d}`, jPairs(cells), tinycpm.Start)), 0o644)
	fmt.Printf("cpmdump: %d cells\n", len(cells))
}
