package main

// Mechanism X: exhaustive sweeps of the real CPU.Step against tables that TLC
// generated from the TLA+ operators (spec/gen/Gen_Tables.tla) and the
// encoding catalogue TLC derived from the decoder (spec/gen/Gen_Catalogue.tla).

import (
	"encoding/json"
	"flag"
	"fmt"
	"os"
	"path/filepath"
	"sort"
	"sync"
	"sync/atomic"

	"github.com/koron-go/z80"
)

type Table struct {
	Name  string
	Args  []int
	Rbits []int
	Keep  int
	Undef int
	Data  []int
	nf    int
}

func loadJSON(path string, v interface{}) {
	b, err := os.ReadFile(path)
	if err != nil {
		fmt.Println("MACHINERY-ERROR cannot read", path, err)
		os.Exit(2)
	}
	if err := json.Unmarshal(b, v); err != nil {
		fmt.Println("MACHINERY-ERROR cannot parse", path, err)
		os.Exit(2)
	}
}

func loadTable(dir, name string) *Table {
	t := &Table{}
	loadJSON(filepath.Join(dir, name+".json"), t)
	t.nf = 1 << uint(len(t.Rbits))
	return t
}

func (t *Table) finIdx(fin int) int {
	i := 0
	for k, b := range t.Rbits {
		i |= ((fin >> uint(b)) & 1) << uint(k)
	}
	return i
}

// lookup1 / lookup2: entry for (arg, F) / (arg1, arg2, F)
func (t *Table) lookup1(a, fin int) int    { return t.Data[a*t.nf+t.finIdx(fin)] }
func (t *Table) lookup2(a, x, fin int) int { return t.Data[(a*256+x)*t.nf+t.finIdx(fin)] }

// expF merges the bits the operator keeps without reading them (MergeLaw).
func (t *Table) expF(entryF, fin int) int { return (entryF &^ t.Keep) | (fin & t.Keep) }

type CatEntry struct {
	Bytes []int
	Fam   string
	Tab   string
	B     int
	Loc   string
	Dst   string
	Src   string
}

type Mismatch struct {
	Enc   []int    `json:"enc"`
	Fam   string   `json:"fam"`
	Tab   string   `json:"tab"`
	Loc   string   `json:"loc"`
	A     int      `json:"a"`
	X     int      `json:"x"`
	F     int      `json:"f"`
	Want  string   `json:"want"`
	Got   string   `json:"got"`
	Pre   [27]int  `json:"pre"`
	Cells [][2]int `json:"cells"`
}

const swPC = 0x0100
const swHL = 0x4010
const swIX = 0x5020
const swIY = 0x6030

type sweeper struct {
	cpu  *z80.CPU
	mem  *FlatMem
	base z80.States
	dval int
}

func newSweeper(dval int) *sweeper {
	s := &sweeper{mem: &FlatMem{}, dval: dval}
	s.cpu = &z80.CPU{Memory: s.mem}
	b := &s.base
	b.BC.SetU16(0x1122)
	b.DE.SetU16(0x3344)
	b.HL.SetU16(swHL)
	b.Alternate.AF.SetU16(0x0102)
	b.Alternate.BC.SetU16(0x0304)
	b.Alternate.DE.SetU16(0x0506)
	b.Alternate.HL.SetU16(0x0708)
	b.IX, b.IY, b.SP, b.PC = swIX, swIY, 0xf000, swPC
	b.IR.SetU16(0x0910)
	b.IM = 1
	return s
}

// locAccess returns setter/getter for an operand location on (st, mem).
func (s *sweeper) locAccess(loc string, immAt int) (set func(st *z80.States, x uint8), get func(st *z80.States) uint8, ok bool) {
	d := s.dval
	memAt := func(a uint16) (func(*z80.States, uint8), func(*z80.States) uint8, bool) {
		return func(_ *z80.States, x uint8) { s.mem.d[a] = x }, func(_ *z80.States) uint8 { return s.mem.d[a] }, true
	}
	switch loc {
	case "A":
		return func(st *z80.States, x uint8) { st.AF.Hi = x }, func(st *z80.States) uint8 { return st.AF.Hi }, true
	case "B":
		return func(st *z80.States, x uint8) { st.BC.Hi = x }, func(st *z80.States) uint8 { return st.BC.Hi }, true
	case "C":
		return func(st *z80.States, x uint8) { st.BC.Lo = x }, func(st *z80.States) uint8 { return st.BC.Lo }, true
	case "D":
		return func(st *z80.States, x uint8) { st.DE.Hi = x }, func(st *z80.States) uint8 { return st.DE.Hi }, true
	case "E":
		return func(st *z80.States, x uint8) { st.DE.Lo = x }, func(st *z80.States) uint8 { return st.DE.Lo }, true
	case "H":
		return func(st *z80.States, x uint8) { st.HL.Hi = x }, func(st *z80.States) uint8 { return st.HL.Hi }, true
	case "L":
		return func(st *z80.States, x uint8) { st.HL.Lo = x }, func(st *z80.States) uint8 { return st.HL.Lo }, true
	case "IXH":
		return func(st *z80.States, x uint8) { st.IX = st.IX&0x00ff | uint16(x)<<8 }, func(st *z80.States) uint8 { return uint8(st.IX >> 8) }, true
	case "IXL":
		return func(st *z80.States, x uint8) { st.IX = st.IX&0xff00 | uint16(x) }, func(st *z80.States) uint8 { return uint8(st.IX) }, true
	case "IYH":
		return func(st *z80.States, x uint8) { st.IY = st.IY&0x00ff | uint16(x)<<8 }, func(st *z80.States) uint8 { return uint8(st.IY >> 8) }, true
	case "IYL":
		return func(st *z80.States, x uint8) { st.IY = st.IY&0xff00 | uint16(x) }, func(st *z80.States) uint8 { return uint8(st.IY) }, true
	case "(HL)":
		return memAt(swHL)
	case "(IX+d)":
		return memAt(uint16(swIX + d))
	case "(IY+d)":
		return memAt(uint16(swIY + d))
	case "n":
		return memAt(uint16(immAt))
	}
	return nil, nil, false
}

// place writes the encoding at swPC, returns its length and the address of the immediate.
func (s *sweeper) place(bytes []int) (n int, immAt int) {
	immAt = -1
	for i, b := range bytes {
		v := b
		if b == -1 {
			v = s.dval & 0xff
		} else if b == -2 {
			v = 0
			immAt = swPC + i
		}
		s.mem.d[swPC+i] = uint8(v)
	}
	return len(bytes), immAt
}

type sweepStats struct {
	steps      int64
	mismatches []Mismatch
	mu         sync.Mutex
}

func (ss *sweepStats) add(m Mismatch) {
	ss.mu.Lock()
	if len(ss.mismatches) < 50 {
		ss.mismatches = append(ss.mismatches, m)
	}
	ss.mu.Unlock()
}

// sweep8 runs the complete cube of one catalogue entry.
// fstep / astep subsample F and A in the quick tier (1 = complete).
func sweep8(e *CatEntry, tabs map[string]*Table, dval int, aVals []int, ss *sweepStats) {
	s := newSweeper(dval)
	n, immAt := s.place(e.Bytes)
	t := tabs[e.Tab]
	if t == nil {
		fmt.Println("MACHINERY-ERROR no table", e.Tab)
		os.Exit(2)
	}
	set, get, ok := s.locAccess(e.Loc, immAt)
	if !ok {
		fmt.Println("MACHINERY-ERROR bad location", e.Loc)
		os.Exit(2)
	}
	cpu := s.cpu
	var steps int64
	report := func(a, x, fin int, want, got string, pre z80.States) {
		cells := [][2]int{}
		for i := 0; i < n; i++ {
			cells = append(cells, [2]int{swPC + i, int(s.mem.d[swPC+i])})
		}
		if e.Loc == "(HL)" || e.Loc == "(IX+d)" || e.Loc == "(IY+d)" {
			addr := map[string]int{"(HL)": swHL, "(IX+d)": swIX + dval, "(IY+d)": swIY + dval}[e.Loc]
			cells = append(cells, [2]int{addr, x})
		}
		ss.add(Mismatch{Enc: e.Bytes, Fam: e.Fam, Tab: e.Tab, Loc: e.Loc, A: a, X: x, F: fin, Want: want, Got: got, Pre: Regs(&pre), Cells: cells})
	}
	bad := 0
	pre := new(z80.States)
	exp := new(z80.States)
	for _, a := range aVals {
		for x := 0; x < 256; x++ {
			if e.Loc == "A" && x != a {
				continue
			}
			for fin := 0; fin < 256; fin++ {
				*pre = s.base
				pre.AF.Hi, pre.AF.Lo = uint8(a), uint8(fin)
				set(pre, uint8(x))
				cpu.States = *pre
				cpu.Step()
				steps++
				// expected
				var ea, ex, ef int
				switch e.Fam {
				case "ALU":
					ent := t.lookup2(a, x, fin)
					ea, ex, ef = ent>>8, x, ent&255
					if e.Loc == "A" {
						ex = ea
					}
				case "ACC":
					ent := t.lookup1(a, fin)
					ea, ex, ef = ent>>8, ent>>8, ent&255
				case "UN8":
					var ent int
					if len(t.Args) == 2 {
						ent = t.lookup2(e.B, x, fin)
					} else {
						ent = t.lookup1(x, fin)
					}
					ea, ex, ef = a, ent>>8, ent&255
					if e.Loc == "A" {
						ea = ex
					}
				case "BIT":
					ent := t.lookup2(e.B, x, fin)
					ea, ex, ef = a, x, ent&255
				case "RLD":
					ent := t.lookup2(a, x, fin)
					ea, ex, ef = ent>>16, (ent>>8)&255, ent&255
				}
				ef = t.expF(ef, fin)
				*exp = *pre
				exp.PC = uint16(swPC + n)
				exp.AF.Hi = uint8(ea)
				if e.Loc != "n" {
					set(exp, uint8(ex))
				}
				got := &cpu.States
				gotX := get(got)
				// flags: compare outside the undefined mask, then neutralise; R is C14's business
				fok := (int(got.AF.Lo)^ef)&^t.Undef == 0
				exp.AF.Lo = got.AF.Lo
				exp.IR.Lo = got.IR.Lo
				if e.Loc == "n" {
					gotX = uint8(ex)
				}
				if !fok || *got != *exp || int(gotX) != ex {
					bad++
					if bad <= 3 {
						report(a, x, fin, fmt.Sprintf("A=%02x x=%02x F=%02x(undef %02x)", ea, ex, ef, t.Undef),
							fmt.Sprintf("A=%02x x=%02x F=%02x PC=%04x", got.AF.Hi, gotX, got.AF.Lo, got.PC), *pre)
					}
				}
			}
		}
	}
	atomic.AddInt64(&ss.steps, steps)
}

func cmdSweep8(args []string) {
	fs := flag.NewFlagSet("sweep8", flag.ExitOnError)
	tabdir := fs.String("tables", "", "directory with TLC-generated tables")
	out := fs.String("out", "", "result JSON")
	astep := fs.Int("astep", 1, "1 = all 256 accumulator values for unary families; k = every k-th")
	workers := fs.Int("workers", 16, "goroutines")
	fs.Parse(args)
	var cat struct {
		Dval int
		Data []CatEntry
	}
	loadJSON(filepath.Join(*tabdir, "CAT8.json"), &cat)
	tabs := map[string]*Table{}
	for _, e := range cat.Data {
		if tabs[e.Tab] == nil {
			tabs[e.Tab] = loadTable(*tabdir, e.Tab)
		}
	}
	sort.Slice(cat.Data, func(i, j int) bool { return fmt.Sprint(cat.Data[i].Bytes) < fmt.Sprint(cat.Data[j].Bytes) })
	all := make([]int, 256)
	for i := range all {
		all[i] = i
	}
	var sub []int
	for i := 0; i < 256; i += *astep {
		sub = append(sub, i)
	}
	ss := &sweepStats{}
	ch := make(chan *CatEntry)
	var wg sync.WaitGroup
	for w := 0; w < *workers; w++ {
		wg.Add(1)
		go func() {
			defer wg.Done()
			for e := range ch {
				av := all
				if e.Fam == "UN8" || e.Fam == "BIT" {
					av = sub // A is not an operand of these; the quick tier samples it
				}
				sweep8(e, tabs, cat.Dval, av, ss)
			}
		}()
	}
	for i := range cat.Data {
		ch <- &cat.Data[i]
	}
	close(ch)
	wg.Wait()
	res := map[string]interface{}{"encodings": len(cat.Data), "steps": ss.steps, "mismatches": ss.mismatches,
		"tables": len(tabs)}
	b, _ := json.Marshal(res)
	os.WriteFile(*out, b, 0o644)
	fmt.Printf("sweep8: %d encodings, %d steps, %d mismatching encodings sampled\n", len(cat.Data), ss.steps, len(ss.mismatches))
}
