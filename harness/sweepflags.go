package main

// C16: accessors against the TLC-generated tables of spec/Flags.tla.

import (
	"encoding/json"
	"flag"
	"fmt"
	"os"
	"path/filepath"

	"github.com/koron-go/z80"
)

func cmdSweepFlags(args []string) {
	fs := flag.NewFlagSet("sweepflags", flag.ExitOnError)
	tabdir := fs.String("tables", "", "tables")
	out := fs.String("out", "", "result JSON")
	fs.Parse(args)
	var t struct {
		Consts                map[string]int
		Get, Set, Res, Hi, Lo []int
	}
	loadJSON(filepath.Join(*tabdir, "FLAGS.json"), &t)
	type mm struct {
		What       string `json:"what"`
		Mask, F, A int
		Want, Got  string
	}
	var bad []mm
	add := func(m mm) {
		if len(bad) < 20 {
			bad = append(bad, m)
		}
	}
	real := map[string]int{"C": int(z80.FlagC), "N": int(z80.FlagN), "PV": int(z80.FlagPV), "F3": int(z80.Flag3),
		"H": int(z80.FlagH), "F5": int(z80.Flag5), "Z": int(z80.FlagZ), "S": int(z80.FlagS)}
	for k, v := range t.Consts {
		if real[k] != v {
			add(mm{What: "const " + k, Want: fmt.Sprint(v), Got: fmt.Sprint(real[k])})
		}
	}
	evals := 0
	for mask := 0; mask < 256; mask++ {
		for f := 0; f < 256; f++ {
			i := mask*256 + f
			for a := 0; a < 256; a++ {
				var g z80.GPR
				g.AF.Hi, g.AF.Lo = uint8(a), uint8(f)
				g.BC.SetU16(0x1234)
				g.DE.SetU16(0x5678)
				g.HL.SetU16(0x9abc)
				base := g
				got := g.GetFlag(z80.Flag(mask))
				if got != (t.Get[i] == 1) || g != base {
					add(mm{What: "GetFlag", Mask: mask, F: f, A: a, Want: fmt.Sprint(t.Get[i] == 1), Got: fmt.Sprint(got, g)})
				}
				g.SetFlag(z80.Flag(mask))
				exp := base
				exp.AF.Lo = uint8(t.Set[i])
				if g != exp {
					add(mm{What: "SetFlag", Mask: mask, F: f, A: a, Want: fmt.Sprint(exp), Got: fmt.Sprint(g)})
				}
				g = base
				g.ResetFlag(z80.Flag(mask))
				exp = base
				exp.AF.Lo = uint8(t.Res[i])
				if g != exp {
					add(mm{What: "ResetFlag", Mask: mask, F: f, A: a, Want: fmt.Sprint(exp), Got: fmt.Sprint(g)})
				}
				evals += 3
			}
		}
	}
	for w := 0; w < 65536; w++ {
		var r z80.Register
		r.SetU16(uint16(w))
		if int(r.U16()) != w || int(r.Hi) != t.Hi[w] || int(r.Lo) != t.Lo[w] {
			add(mm{What: "Register.SetU16/U16", F: w, Want: fmt.Sprintf("hi=%d lo=%d", t.Hi[w], t.Lo[w]), Got: fmt.Sprint(r, r.U16())})
		}
		r2 := z80.Register{Hi: uint8(t.Hi[w]), Lo: uint8(t.Lo[w])}
		if int(r2.U16()) != w {
			add(mm{What: "Register.U16", F: w, Want: fmt.Sprint(w), Got: fmt.Sprint(r2.U16())})
		}
		evals += 2
	}
	res := map[string]interface{}{"evaluations": evals, "mismatches": bad}
	b, _ := json.Marshal(res)
	os.WriteFile(*out, b, 0o644)
	fmt.Printf("sweepflags: %d evaluations, %d mismatches\n", evals, len(bad))
}
