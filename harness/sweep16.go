package main

// Mechanism X for C03: 16-bit arithmetic. The oracle is the byte-serial
// composition of the complete TLC-generated 8-bit ADC/SBC tables (the rule
// TLC checked against the direct 17-bit definitions: MC_AluLaws L09/L10); the
// composition is validated against 60,000 TLC-evaluated direct points
// (SPOT16) before it is used.

import (
	"encoding/json"
	"flag"
	"fmt"
	"os"
	"path/filepath"
	"sync"
	"sync/atomic"

	"github.com/koron-go/z80"
)

type oracle16 struct {
	adc, sbc *Table // ALU1, ALU3: index (a*256+x)*2+c -> a'*256+f
	inc, dec []int
}

const (
	fS, fZ, f5, fH, f3, fPV, fN, fC = 0x80, 0x40, 0x20, 0x10, 0x08, 0x04, 0x02, 0x01
)

// serial returns (result, flags-of-ADC/SBC-form) by the byte-serial rule.
func (o *oracle16) serial(sub bool, a, x, c int) (int, int) {
	t := o.adc
	if sub {
		t = o.sbc
	}
	lo := t.Data[((a&255)*256+(x&255))*2+c]
	hi := t.Data[((a>>8)*256+(x>>8))*2+(lo&1)]
	r := (hi>>8)<<8 | (lo >> 8)
	f := hi & 255 &^ fZ
	if r == 0 {
		f |= fZ
	}
	return r, f
}

func (o *oracle16) expect(fam string, a, x, fin int) (int, int) {
	switch fam {
	case "ADD16":
		r, f := o.serial(false, a, x, 0)
		return r, fin&(fS|fZ|fPV) | f&(f5|f3|fH|fC)
	case "ADC16":
		return o.serial(false, a, x, fin&1)
	case "SBC16":
		return o.serial(true, a, x, fin&1)
	case "INC16":
		return o.inc[a], fin
	case "DEC16":
		return o.dec[a], fin
	}
	panic(fam)
}

func get16(s *z80.States, n string) int {
	switch n {
	case "BC":
		return int(s.BC.U16())
	case "DE":
		return int(s.DE.U16())
	case "HL":
		return int(s.HL.U16())
	case "SP":
		return int(s.SP)
	case "IX":
		return int(s.IX)
	case "IY":
		return int(s.IY)
	}
	panic(n)
}

func set16(s *z80.States, n string, v int) {
	switch n {
	case "BC":
		s.BC.SetU16(uint16(v))
	case "DE":
		s.DE.SetU16(uint16(v))
	case "HL":
		s.HL.SetU16(uint16(v))
	case "SP":
		s.SP = uint16(v)
	case "IX":
		s.IX = uint16(v)
	case "IY":
		s.IY = uint16(v)
	}
}

var regCode = map[string]int{"BC": 0, "DE": 1, "HL": 2, "SP": 3, "IX": 4, "IY": 5}

type job16 struct {
	e     *CatEntry
	aVals []int
	xVals []int // nil = all 65536
	fVals []int
}

func runJob16(j *job16, o *oracle16, ss *sweepStats) {
	e := j.e
	mem := &FlatMem{}
	cpu := &z80.CPU{Memory: mem}
	for i, b := range e.Bytes {
		mem.d[swPC+i] = uint8(b)
	}
	n := len(e.Bytes)
	base := newSweeper(0).base
	cpu.States = base
	dst, src := regCode[e.Dst], regCode[e.Src]
	same := dst == src
	unary := e.Fam == "INC16" || e.Fam == "DEC16"
	var steps int64
	bad := 0
	regp := []*z80.Register{&cpu.BC, &cpu.DE, &cpu.HL, nil, nil, nil}
	wordp := []*uint16{nil, nil, nil, &cpu.SP, &cpu.IX, &cpu.IY}
	setr := func(code, v int) {
		if p := regp[code]; p != nil {
			p.Hi, p.Lo = uint8(v>>8), uint8(v)
		} else {
			*wordp[code] = uint16(v)
		}
	}
	getr := func(code int) int {
		if p := regp[code]; p != nil {
			return int(p.Hi)<<8 | int(p.Lo)
		}
		return int(*wordp[code])
	}
	famCode := map[string]int{"ADD16": 0, "ADC16": 1, "SBC16": 2, "INC16": 3, "DEC16": 4}[e.Fam]
	one := func(a, x int) {
		for _, fin := range j.fVals {
			cpu.PC = swPC
			cpu.AF.Lo = uint8(fin)
			setr(dst, a)
			if !same {
				setr(src, x)
			}
			cpu.Step()
			steps++
			var er, ef int
			switch famCode {
			case 0:
				r, f := o.serial(false, a, x, 0)
				er, ef = r, fin&(fS|fZ|fPV)|f&(f5|f3|fH|fC)
			case 1:
				er, ef = o.serial(false, a, x, fin&1)
			case 2:
				er, ef = o.serial(true, a, x, fin&1)
			case 3:
				er, ef = o.inc[a], fin
			default:
				er, ef = o.dec[a], fin
			}
			if getr(dst) != er || int(cpu.AF.Lo) != ef || int(cpu.PC) != swPC+n || (!same && getr(src) != x) {
				bad++
				if bad <= 3 {
					pre := base
					pre.AF.Lo = uint8(fin)
					set16(&pre, e.Dst, a)
					if !same {
						set16(&pre, e.Src, x)
					}
					cells := [][2]int{}
					for i, b := range e.Bytes {
						cells = append(cells, [2]int{swPC + i, b})
					}
					ss.add(Mismatch{Enc: e.Bytes, Fam: e.Fam, Tab: e.Dst, Loc: e.Src, A: a, X: x, F: fin,
						Want: fmt.Sprintf("%s=%04x F=%02x", e.Dst, er, ef),
						Got:  fmt.Sprintf("%s=%04x F=%02x PC=%04x %s=%04x", e.Dst, getr(dst), cpu.AF.Lo, cpu.PC, e.Src, getr(src)),
						Pre:  Regs(&pre), Cells: cells})
				}
				// restore anything a wrong implementation may have clobbered
				pc, af := cpu.PC, cpu.AF
				cpu.States = base
				_, _ = pc, af
			}
		}
	}
	for _, a := range j.aVals {
		if same || unary {
			one(a, a)
			continue
		}
		if j.xVals == nil {
			for x := 0; x < 65536; x++ {
				one(a, x)
			}
		} else {
			for _, x := range j.xVals {
				one(a, x)
			}
		}
	}
	atomic.AddInt64(&ss.steps, steps)
}

func boundary16(k int) []int {
	// k values: small offsets around every multiple of 0x1000, 0x0100 boundaries, plus a stride
	seen := map[int]bool{}
	var out []int
	add := func(v int) {
		v &= 0xffff
		if !seen[v] {
			seen[v] = true
			out = append(out, v)
		}
	}
	for b := 0; b < 0x10000; b += 0x1000 {
		for d := -2; d <= 2; d++ {
			add(b + d)
		}
	}
	for b := 0; b < 0x10000; b += 0x100 {
		add(b)
		add(b - 1)
	}
	for _, v := range []int{0x7fff, 0x8000, 0x8001, 0x0fff, 0xf000, 0x1234, 0xabcd, 0x5555, 0xaaaa} {
		add(v)
	}
	for i := 0; len(out) < k; i++ {
		add(i*40503 + 977)
	}
	return out[:k]
}

func cmdSweep16(args []string) {
	fs := flag.NewFlagSet("sweep16", flag.ExitOnError)
	tabdir := fs.String("tables", "", "directory with TLC-generated tables")
	out := fs.String("out", "", "result JSON")
	mode := fs.String("mode", "quick", "quick | thorough")
	workers := fs.Int("workers", 16, "goroutines")
	fs.Parse(args)
	var cat struct{ Data []CatEntry }
	loadJSON(filepath.Join(*tabdir, "CAT16.json"), &cat)
	o := &oracle16{adc: loadTable(*tabdir, "ALU1"), sbc: loadTable(*tabdir, "ALU3")}
	var t16 struct{ Data []int }
	loadJSON(filepath.Join(*tabdir, "INC16.json"), &t16)
	o.inc = t16.Data
	t16.Data = nil
	loadJSON(filepath.Join(*tabdir, "DEC16.json"), &t16)
	o.dec = t16.Data
	// validate the composition against TLC-evaluated direct points
	var spot struct{ Data [][]int }
	loadJSON(filepath.Join(*tabdir, "SPOT16.json"), &spot)
	for _, p := range spot.Data {
		a, x, fin := p[0], p[1], p[2]
		for k, fam := range []string{"ADD16", "ADC16", "SBC16"} {
			r, f := o.expect(fam, a, x, fin)
			if r != p[3+2*k] || f != p[4+2*k] {
				fmt.Printf("MACHINERY-ERROR composition disagrees with TLC point %v for %s: %04x %02x\n", p, fam, r, f)
				os.Exit(2)
			}
		}
	}
	all := make([]int, 65536)
	for i := range all {
		all[i] = i
	}
	allF := make([]int, 256)
	for i := range allF {
		allF[i] = i
	}
	f4 := []int{0x00, 0x01, 0xfe, 0xff}
	var jobs []*job16
	for i := range cat.Data {
		e := &cat.Data[i]
		switch {
		case e.Fam == "INC16" || e.Fam == "DEC16" || e.Dst == e.Src:
			// all 65,536 values x all 256 F
			for c := 0; c < 16; c++ {
				jobs = append(jobs, &job16{e: e, aVals: all[c*4096 : (c+1)*4096], fVals: allF})
			}
		case *mode == "thorough":
			// all 2^32 pairs x {00,01,FE,FF}; all 256 F on a 1024^2 boundary subset
			for c := 0; c < 64; c++ {
				jobs = append(jobs, &job16{e: e, aVals: all[c*1024 : (c+1)*1024], fVals: f4})
			}
			b := boundary16(1024)
			for c := 0; c < 4; c++ {
				jobs = append(jobs, &job16{e: e, aVals: b[c*256 : (c+1)*256], xVals: b, fVals: allF})
			}
		default:
			b := boundary16(4096)
			for c := 0; c < 8; c++ {
				jobs = append(jobs, &job16{e: e, aVals: b[c*512 : (c+1)*512], xVals: b, fVals: f4})
			}
			b2 := boundary16(256)
			jobs = append(jobs, &job16{e: e, aVals: b2, xVals: b2, fVals: allF})
		}
	}
	ss := &sweepStats{}
	ch := make(chan *job16)
	var wg sync.WaitGroup
	for w := 0; w < *workers; w++ {
		wg.Add(1)
		go func() {
			defer wg.Done()
			for j := range ch {
				runJob16(j, o, ss)
			}
		}()
	}
	for _, j := range jobs {
		ch <- j
	}
	close(ch)
	wg.Wait()
	res := map[string]interface{}{"encodings": len(cat.Data), "steps": ss.steps, "mismatches": ss.mismatches,
		"spot_points": len(spot.Data), "mode": *mode}
	b, _ := json.Marshal(res)
	os.WriteFile(*out, b, 0o644)
	fmt.Printf("sweep16: %d encodings, %d steps, %d mismatches sampled\n", len(cat.Data), ss.steps, len(ss.mismatches))
}
