package main

// C13 hook tier: forced schedules of Run's watcher/runner hand-off, recorded
// at the linearization points (verif hooks + the harness' own events) for
// validation against spec/runcancel/RunCancelTrace.tla.

import (
	"bufio"
	"context"
	"errors"
	"flag"
	"fmt"
	"os"
	"sync"
	"time"

	"github.com/koron-go/z80"
)

type hookSched struct {
	cancelAt    int    // cancel when this many Steps have begun (0 = before Run, -1 = never)
	holdWatcher string // hold the watcher at this hook event ...
	holdSteps   int    // ... until this many more Steps have begun
	holdRunner  int    // hold the runner at the beginning of this Step (0 = no) ...
	holdUntil   string // ... until this watcher event has been recorded
}

type hookRec struct {
	mu     sync.Mutex
	cond   *sync.Cond
	events []string
	steps  int
	seen   map[string]bool
}

func (r *hookRec) add(ev string) {
	r.mu.Lock()
	r.events = append(r.events, ev)
	r.seen[ev] = true
	r.cond.Broadcast()
	r.mu.Unlock()
}

// waitFor blocks until pred holds (with the lock held) or the timeout passes.
func (r *hookRec) waitFor(pred func() bool, d time.Duration) bool {
	deadline := time.Now().Add(d)
	r.mu.Lock()
	defer r.mu.Unlock()
	for !pred() {
		if time.Now().After(deadline) {
			return false
		}
		r.mu.Unlock()
		time.Sleep(50 * time.Microsecond)
		r.mu.Lock()
	}
	return true
}

func runHookSchedule(prog string, s hookSched, w *bufio.Writer) string {
	rec := &hookRec{seen: map[string]bool{}}
	rec.cond = sync.NewCond(&rec.mu)
	mem := &FlatMem{}
	cpu := &z80.CPU{Memory: mem}
	cpu.PC = 0x0100
	cpu.SP = 0xf000
	switch prog {
	case "loop":
		mem.d[0x100] = 0xe9 // JP (HL), HL = 0100h: a one-byte instruction jumping to itself
		cpu.HL.SetU16(0x0100)
	case "halt3", "bp2":
		mem.d[0x100], mem.d[0x101], mem.d[0x102] = 0x00, 0x00, 0x76
		if prog == "bp2" {
			cpu.BreakPoints = map[uint16]struct{}{0x0102: {}}
		}
	}
	ctx, cancel := context.WithCancel(context.Background())
	defer cancel()
	gm := &gateMem{inner: mem}
	cpu.Memory = gm
	cancelled := false
	gm.onFetch = func() {
		rec.mu.Lock()
		rec.steps++
		n := rec.steps
		rec.events = append(rec.events, "step-begin")
		rec.mu.Unlock()
		if s.cancelAt > 0 && n == s.cancelAt && !cancelled {
			cancelled = true
			rec.add("cancel")
			cancel()
		}
		if s.holdRunner > 0 && n == s.holdRunner {
			rec.waitFor(func() bool { return rec.seen[s.holdUntil] }, 2*time.Second)
		}
	}
	setHook(func(ev string) {
		rec.add(ev)
		if ev == s.holdWatcher {
			rec.mu.Lock()
			target := rec.steps + s.holdSteps
			rec.mu.Unlock()
			rec.waitFor(func() bool { return rec.steps >= target || rec.seen["returned"] }, 2*time.Second)
		}
	})
	defer setHook(nil)
	if s.cancelAt == 0 {
		rec.add("cancel")
		cancel()
	}
	done := make(chan error, 1)
	go func() { done <- cpu.Run(ctx) }()
	var err error
	select {
	case err = <-done:
	case <-time.After(5 * time.Second):
		return "Run did not return"
	}
	errs := "nil"
	switch {
	case err == nil:
	case errors.Is(err, z80.ErrBreakPoint):
		errs = "bp"
	case errors.Is(err, context.Canceled):
		errs = "ctx"
	default:
		errs = "other"
	}
	rec.add("returned:" + errs)
	rec.mu.Lock()
	rec.seen["returned"] = true
	rec.mu.Unlock()
	// the watcher finishes after the deferred cancel(): wait for its three events
	rec.waitFor(func() bool { return rec.seen["watcher-stored"] }, 2*time.Second)
	time.Sleep(200 * time.Microsecond)
	rec.mu.Lock()
	evs := append([]string{}, rec.events...)
	rec.mu.Unlock()
	// long runs of Steps in the middle carry no information: keep at most 6 consecutive step-begin events
	run := 0
	for _, e := range evs {
		if e == "step-begin" {
			run++
			if run > 6 {
				continue
			}
		} else {
			run = 0
		}
		if len(e) > 9 && e[:9] == "returned:" {
			fmt.Fprintf(w, `{"ev":"returned","err":"%s"}`+"\n", e[9:])
		} else {
			fmt.Fprintf(w, `{"ev":"%s"}`+"\n", e)
		}
	}
	fmt.Fprintln(w, `{"ev":"reset"}`)
	return ""
}

type gateMem struct {
	inner   *FlatMem
	onFetch func()
}

func (g *gateMem) Get(a uint16) uint8 {
	if g.onFetch != nil {
		g.onFetch() // every access of these programs is an opcode fetch (one-byte instructions only)
	}
	return g.inner.Get(a)
}
func (g *gateMem) Set(a uint16, v uint8) { g.inner.Set(a, v) }

func cmdHookTrace(args []string) {
	fs := flag.NewFlagSet("hooktrace", flag.ExitOnError)
	out := fs.String("out", "", "output directory")
	fs.Parse(args)
	if !HooksAvailable {
		fmt.Println("hooktrace: hooks not available")
		os.WriteFile(*out+"/hooktrace.json", []byte(`{"available":false}`), 0o644)
		return
	}
	n := 0
	problems := []string{}
	for _, prog := range []string{"loop", "halt3", "bp2"} {
		f, _ := os.Create(fmt.Sprintf("%s/hook_%s.ndjson", *out, prog))
		w := bufio.NewWriter(f)
		var scheds []hookSched
		cancels := []int{0, 1, 2, 5}
		if prog != "loop" {
			cancels = []int{-1, 0, 1, 2}
		}
		for _, c := range cancels {
			scheds = append(scheds, hookSched{cancelAt: c})
			if c >= 0 {
				for _, hw := range []string{"watcher-woken", "watcher-wrote", "watcher-stored"} {
					scheds = append(scheds, hookSched{cancelAt: c, holdWatcher: hw, holdSteps: 2})
				}
			}
			if c > 0 {
				for _, hu := range []string{"watcher-woken", "watcher-wrote", "watcher-stored"} {
					scheds = append(scheds, hookSched{cancelAt: c, holdRunner: c + 1, holdUntil: hu})
				}
			}
		}
		for rep := 0; rep < 3; rep++ {
			for _, s := range scheds {
				if p := runHookSchedule(prog, s, w); p != "" {
					problems = append(problems, fmt.Sprintf("%s %+v: %s", prog, s, p))
				}
				n++
			}
		}
		w.Flush()
		f.Close()
	}
	pj := "[]"
	if len(problems) > 0 {
		pj = fmt.Sprintf("%q", problems)
	}
	os.WriteFile(*out+"/hooktrace.json", []byte(fmt.Sprintf(`{"available":true,"schedules":%d,"problems":%s}`, n, pj)), 0o644)
	fmt.Printf("hooktrace: %d forced schedules\n", n)
}
