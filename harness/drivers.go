package main

// Structured drivers: catalogue (C01/C05/C14), control flow (C04),
// DD/FD mirror pairs (C11), fuzz (C12).

import (
	"bufio"
	"flag"
	"fmt"
	"math/rand"
	"os"
	"strings"

	"github.com/koron-go/z80"
)

var catF = []int{0x00, 0xff, 0x55, 0xaa, 0x01, 0x02, 0x04, 0x08, 0x10, 0x20, 0x40, 0x80}
var catPC = []int{0x0000, 0x0100, 0xfffc, 0xfffd, 0xfffe, 0xffff, 0x8000}
var catD = []int{0x80, 0xff, 0x00, 0x01, 0x7f}
var catDev = []int{0x00, 0x5a, 0xff}

// CatInit builds the i-th structured pre-state for decode point (table, op).
// Every dimension cycles with its own stride so that pairs of values co-occur.
func CatInit(table, op, i int, seed int64, allD bool) *InitSpec {
	r := rand.New(rand.NewSource(seed*7919 + int64(table*256+op)*131 + int64(i)))
	is := &InitSpec{Pend: []int{}}
	var s [27]int
	// three "all registers distinct" patterns
	switch i % 3 {
	case 0:
		for k := 0; k < 20; k++ {
			s[k] = 0x0a + k
		}
	case 1:
		for k := 0; k < 20; k++ {
			s[k] = (0xf5 - 0x0b*k) & 0xff
		}
	default:
		perm := r.Perm(256)
		for k := 0; k < 20; k++ {
			s[k] = perm[k]
		}
	}
	s[1] = catF[(i*5+1)%len(catF)]
	pc := catPC[(i*3+op)%len(catPC)]
	spv := []int{0x0000, 0x0001, 0x8000, 0xffff, (pc + 1) & 0xffff, (pc + 2) & 0xffff, 0x4000}
	ptr := []int{0x0000, 0x7fff, 0x8000, 0xffff, pc, (pc + 1) & 0xffff, 0x4000, 0xfffe, (pc - 1) & 0xffff}
	set16 := func(hi int, v int) { s[hi], s[hi+1] = v>>8, v&255 }
	j := i / 3
	if j%2 == 1 {
		set16(6, ptr[(j*1+2)%len(ptr)])  // HL
		set16(16, ptr[(j*2+3)%len(ptr)]) // IX
		set16(18, ptr[(j*4+5)%len(ptr)]) // IY
	}
	if j%4 == 2 {
		set16(2, ptr[(j*5+1)%len(ptr)]) // BC
		set16(4, ptr[(j*7+2)%len(ptr)]) // DE
	}
	if j%5 == 3 { // small counters for block instructions / DJNZ
		set16(2, []int{0, 1, 2, 0x0100, 0x01ff, 0xff00}[(j/5)%6])
	}
	s[20] = spv[(i*7+1)%len(spv)]
	s[21] = pc
	s[22] = []int{0x00, 0x7f, 0x80, 0xff, 0x12}[(i*3)%5]
	s[23] = []int{0x00, 0x7f, 0x80, 0xff, 0x7e, 0xfe, 0x35}[(i*5)%7]
	combo := i % 12
	s[24], s[25], s[26] = combo&1, (combo>>1)&1, combo>>2
	is.R = s
	d := catD[(i*11+2)%len(catD)]
	if allD {
		d = (i * 37) & 0xff
	}
	dv := catDev[(i*13)%3]
	if i%4 == 3 {
		is.Dev = DevDesc{Kind: "hash", Seed: i % 50, Len: 65536}
	} else {
		is.Dev = DevDesc{Kind: "const", Val: dv, Len: 65536}
	}
	is.IO = IODesc{Kind: "hash", Seed: (i * 17) % 97}
	switch i % 7 {
	case 5: // no port device attached
		is.IO = IODesc{Kind: "nil"}
	case 3: // the bundled array device
		is.IO = IODesc{Kind: "dumb", Len: []int{256, 1, 128}[(i/7)%3]}
		is.IOCells = dedupe([][2]int{{0, 0xa5}, {(i * 29) & 0xff, 0x80}, {s[3], 0x5a}})
	}
	switch i % 5 { // which notification handlers the host installed
	case 1:
		is.NoHN = true
	case 2:
		is.NoHI = true
	case 4:
		is.NoHN, is.NoHI = i%2 == 0, i%2 == 0
	}
	// a maskable request is pending and masked (IFF1 = 0 for these i): the instruction executes as if there were none
	if i%8 == 6 || i%16 == 4 {
		is.Pend = []int{1, 0xff - (i & 0x38)}
	}
	imm := []int{0x0000, 0x1234, 0xffff, pc, (pc + 2) & 0xffff, s[20], (s[20] - 1) & 0xffff, 0x5aa5}[(i*3+1)%8]
	var cells [][2]int
	for k, b := range EncBytes(table, op, d, imm&255, imm>>8) {
		cells = append(cells, [2]int{(pc + k) & 0xffff, b})
	}
	is.Cells = dedupe(cells)
	return is
}

// vol1: single Steps on a memory with read-sensitive registers (every address >= base: the first read returns what
// is stored, every later read of the same address something else; writes do not stick); pointers aimed into it.  An
// operand that is read twice, re-read after the write-back, or an opcode byte that is fetched again, yields a
// different result.  base = C000h (data only) or 0 (the program bytes too).
func volWanted(only string, table, op int) bool {
	switch only {
	case "all":
		return true
	case "alu": // the 8-bit ALU / rotate / bit families
		switch table {
		case 0, 3, 4:
			return (op < 0x40 && (op&7 == 4 || op&7 == 5 || op&7 == 7)) || (op >= 0x80 && op < 0xc0) || (op >= 0xc0 && op&7 == 6)
		case 2:
			return (op >= 0x40 && op < 0x80 && op&7 == 4) || op == 0x67 || op == 0x6f
		}
		return true // CB, DDCB, FDCB
	case "blk": // block transfer / search / I/O
		return table == 2 && op >= 0xa0 && op < 0xc0 && op&7 < 4
	case "a16": // 16-bit arithmetic
		switch table {
		case 0, 3, 4:
			return op < 0x40 && (op&15 == 9 || op&15 == 3 || op&15 == 11)
		case 2:
			return op >= 0x40 && op < 0x80 && (op&15 == 2 || op&15 == 10)
		}
		return false
	}
	panic("vol1 -only " + only)
}

func cmdVol1(args []string) {
	fs := flag.NewFlagSet("vol1", flag.ExitOnError)
	out := fs.String("out", "", "output directory")
	shards := fs.Int("shards", 16, "shards")
	n := fs.Int("n", 2, "Steps per decode point")
	only := fs.String("only", "all", "all | alu | a16 | blk")
	seed := fs.Int64("seed", 1, "seed")
	fs.Parse(args)
	var dps []int
	for dp := 0; dp < NTables*256; dp++ {
		if volWanted(*only, dp/256, dp%256) {
			dps = append(dps, dp)
		}
	}
	for sh := 0; sh < *shards; sh++ {
		r := rand.New(rand.NewSource(*seed*6151 + int64(sh)))
		f, w := openShard(*out, sh)
		for k := sh; k < len(dps)**n; k += *shards {
			dp, i := dps[k / *n], k%*n
			is := RandInit(r, dp/256, dp%256)
			is.Pend = []int{}
			is.Dev = DevDesc{Kind: "volatile", Seed: r.Intn(1000), Len: 65536, Val: 0xc000}
			if i%2 == 1 {
				is.Dev.Val = 0 // the program bytes too are read-once
			}
			old := is.R[21]
			pc := 0x0100 + r.Intn(0x7000)
			is.R[21] = pc
			var cells [][2]int
			for _, c := range is.Cells {
				if d := (c[0] - old) & 0xffff; d < 8 {
					cells = append(cells, [2]int{pc + int(d), c[1]})
				}
			}
			dev := func() int { return 0xc080 + r.Intn(0x3f00) }
			v := dev()
			is.R[6], is.R[7] = v>>8, v&255 // HL
			v = dev()
			is.R[16], is.R[17] = v>>8, v&255 // IX
			v = dev()
			is.R[18], is.R[19] = v>>8, v&255 // IY
			if r.Intn(2) == 0 {
				v = dev()
				is.R[2], is.R[3] = v>>8, v&255
				v = dev()
				is.R[4], is.R[5] = v>>8, v&255
			}
			if r.Intn(3) == 0 {
				is.R[20] = dev()
			}
			is.Cells = dedupe(cells)
			m := NewMachine(is)
			EmitInit(w, is)
			if !safeStep(m, w) {
				continue
			}
		}
		w.Flush()
		f.Close()
	}
}

func cmdCat1(args []string) {
	fs := flag.NewFlagSet("cat1", flag.ExitOnError)
	out := fs.String("out", "", "output directory")
	shards := fs.Int("shards", 16, "shards")
	n := fs.Int("n", 60, "pre-states per decode point")
	seed := fs.Int64("seed", 1, "seed")
	allD := fs.Bool("alld", false, "sweep all displacement values")
	fs.Parse(args)
	total := NTables * 256 * *n
	for sh := 0; sh < *shards; sh++ {
		f, w := openShard(*out, sh)
		for k := sh; k < total; k += *shards {
			dp, i := k / *n, k%*n
			is := CatInit(dp/256, dp%256, i, *seed, *allD)
			m := NewMachine(is)
			EmitInit(w, is)
			m.StepAndEmit(w)
		}
		w.Flush()
		f.Close()
	}
}

// ---------------------------------------------------------------------------
// C04: control flow. All 256 F x every conditional opcode, all 256 B for DJNZ,
// placements with wrap and stack bytes overlapping the instruction, and
// two-step sequences CALL;RET and PUSH;POP.

func ctlInit(r *rand.Rand, pc, sp, f, b int, code []int, extra [][2]int) *InitSpec {
	is := &InitSpec{R: RandState(r), Pend: []int{}}
	is.R[1], is.R[2], is.R[20], is.R[21] = f, b, sp, pc
	is.Dev = DevDesc{Kind: "hash", Seed: r.Intn(500), Len: 65536}
	is.IO = IODesc{Kind: "hash", Seed: 1}
	var cells [][2]int
	cells = append(cells, extra...)
	for k, v := range code {
		cells = append(cells, [2]int{(pc + k) & 0xffff, v})
	}
	is.Cells = dedupe(cells)
	return is
}

func cmdCtl(args []string) {
	fs := flag.NewFlagSet("ctl", flag.ExitOnError)
	out := fs.String("out", "", "output directory")
	shards := fs.Int("shards", 16, "shards")
	seed := fs.Int64("seed", 1, "seed")
	places := fs.Int("places", 4, "PC/SP placements per (opcode, F)")
	fs.Parse(args)
	r := rand.New(rand.NewSource(*seed))
	pcs := []int{0x0000, 0x0001, 0x7ffe, 0xfffd, 0xfffe, 0xffff, 0x0100}
	nns := []int{0x0000, 0x1234, 0xffff, 0x0066}
	es := []int{0x80, 0xfe, 0xff, 0x00, 0x01, 0x7f}
	var inits []*InitSpec
	var steps []int
	add := func(is *InitSpec, n int) { inits = append(inits, is); steps = append(steps, n) }
	sps := func(pc int) []int {
		return []int{0x0000, 0x0001, 0x0002, 0x8000, 0xffff, (pc + 1) & 0xffff, (pc + 2) & 0xffff, (pc + 3) & 0xffff}
	}
	k := 0
	for f := 0; f < 256; f++ {
		for y := 0; y < 8; y++ {
			for _, opbase := range []int{0xc2, 0xc4, 0xc0} { // JP cc / CALL cc / RET cc
				for pl := 0; pl < *places; pl++ {
					k++
					pc := pcs[(k+pl)%len(pcs)]
					sp := sps(pc)[(k/3+pl)%8]
					nn := nns[(k/5+pl)%len(nns)]
					add(ctlInit(r, pc, sp, f, r.Intn(256), []int{opbase + y*8, nn & 255, nn >> 8}, nil), 1)
				}
			}
			if y >= 4 {
				continue
			}
			for pl := 0; pl < *places; pl++ { // JR cc
				k++
				pc := pcs[(k+pl)%len(pcs)]
				add(ctlInit(r, pc, r.Intn(65536), f, r.Intn(256), []int{0x20 + y*8, es[(k+pl)%len(es)]}, nil), 1)
			}
		}
		// unconditional forms and the rest of the family with every F (no flag may change)
		k++
		pc := pcs[k%len(pcs)]
		sp := sps(pc)[(k/2)%8]
		nn := nns[k%len(nns)]
		for _, code := range [][]int{{0xc3, nn & 255, nn >> 8}, {0xcd, nn & 255, nn >> 8}, {0xc9}, {0x18, es[k%len(es)]},
			{0xe9}, {0xdd, 0xe9}, {0xfd, 0xe9}, {0xc7 + (f%8)*8}, {0xc5 + (f%4)*16}, {0xc1 + (f%4)*16},
			{0xdd, 0xe5}, {0xfd, 0xe5}, {0xdd, 0xe1}, {0xfd, 0xe1}, {0xed, 0x45}, {0xed, 0x4d}} {
			add(ctlInit(r, pc, sp, f, r.Intn(256), code, nil), 1)
		}
	}
	for b := 0; b < 256; b++ { // DJNZ
		for _, e := range es {
			k++
			add(ctlInit(r, pcs[k%len(pcs)], r.Intn(65536), r.Intn(256), b, []int{0x10, e}, nil), 1)
		}
	}
	// two-step sequences: CALL nn ; RET  and  PUSH qq ; POP qq (also AF, IX, IY, SP wrap)
	for i := 0; i < 600; i++ {
		pc := pcs[i%len(pcs)]
		sp := sps(pc)[(i/2)%8]
		nn := []int{0x4000, 0x0000, 0xfffe, 0xffff, 0x1234}[i%5]
		if d := (nn - pc) & 0xffff; d < 3 || d > 0xfffc { // keep the RET off the CALL bytes
			nn = 0x2000
		}
		add(ctlInit(r, pc, sp, r.Intn(256), r.Intn(256), []int{0xcd, nn & 255, nn >> 8},
			[][2]int{{nn, 0xc9}}), 2)
		push := [][]int{{0xc5}, {0xd5}, {0xe5}, {0xf5}, {0xdd, 0xe5}, {0xfd, 0xe5}}[i%6]
		pop := [][]int{{0xc1}, {0xd1}, {0xe1}, {0xf1}, {0xdd, 0xe1}, {0xfd, 0xe1}}[i%6]
		add(ctlInit(r, pc, sp, r.Intn(256), r.Intn(256), append(append([]int{}, push...), pop...), nil), 2)
	}
	ws := make([]*bufio.Writer, *shards)
	fsx := make([]*os.File, *shards)
	for sh := range ws {
		fsx[sh], ws[sh] = openShard(*out, sh)
	}
	for i, is := range inits {
		w := ws[i%*shards]
		m := NewMachine(is)
		EmitInit(w, is)
		for s := 0; s < steps[i]; s++ {
			m.StepAndEmit(w)
		}
	}
	for sh := range ws {
		ws[sh].Flush()
		fsx[sh].Close()
	}
	fmt.Printf("ctl: %d scenarios\n", len(inits))
}

// ---------------------------------------------------------------------------
// C11: DD / FD mirror pairs.

func swapIdx(r [27]int) [27]int {
	r[16], r[18] = r[18], r[16]
	r[17], r[19] = r[19], r[17]
	return r
}

type runLog struct {
	pcs       []int // CPU.PC as a device sees it at each memory access of the Step
	idxMoved  int   // the OTHER index register was seen changed by a device during the Step (at some access)
	pre, post [27]int
	halt      bool
	rd        []uint16
	wr        [][2]int
	pio       [][3]int
	md        [][2]int
}

func runOnce(is *InitSpec, w *bufio.Writer) runLog { return runOnceSwap(is, w, 0) }

// runOnceSwap: swapAt > 0 makes the memory a paging latch - its swapAt-th access of the Step replaces CPU.Memory by
// another object with the same contents.  Accesses reaching the second object are logged with 65536 added to the
// address, so the two forms must agree on which object saw which access.
func runOnceSwap(is *InitSpec, w *bufio.Writer, swapAt int) runLog {
	m := NewMachine(is)
	old := m.Mem
	nacc := 0
	moved := 0
	ix0, iy0 := uint16(is.R[16])<<8|uint16(is.R[17]), uint16(is.R[18])<<8|uint16(is.R[19])
	first := -1
	var pcs []int
	m.Mem.OnAny = func() {
		pcs = append(pcs, int(m.CPU.PC))
		// which form is it? the byte at PC when the Step starts
		if first < 0 {
			first = int(m.Mem.Inner.Get(uint16(is.R[21])))
		}
		if first == 0xdd && m.CPU.IY != iy0 {
			moved = 1
		}
		if first == 0xfd && m.CPU.IX != ix0 {
			moved = 1
		}
		nacc++
		if swapAt > 0 && nacc == swapAt {
			m.SwapMemory()
		}
	}
	if w != nil {
		EmitInit(w, is)
		m.StepAndEmit(w)
	} else {
		m.Mem.Reset()
		if m.IO != nil {
			m.IO.Reset()
		}
		m.CPU.Step()
	}
	l := runLog{pre: is.R, post: Regs(&m.CPU.States), halt: m.CPU.HALT, idxMoved: moved, pcs: pcs}
	if m.Mem != old { // the latch fired: first what the first object saw, then the second one (addresses + 65536)
		l.rd = append(l.rd, old.Rd...)
		l.wr = append(l.wr, old.Wr...)
		for _, a := range m.Mem.Rd {
			l.rd = append(l.rd, a) // (uint16: the object is told apart by the marker below)
		}
		l.rd = append(l.rd, 0xffff, 0xffff, uint16(len(old.Rd)))
		for _, x := range m.Mem.Wr {
			l.wr = append(l.wr, [2]int{x[0] + 65536, x[1]})
		}
		l.md = append(old.Diff(), m.Mem.Diff()...)
	} else {
		l.rd = append(l.rd, m.Mem.Rd...)
		l.wr = append(l.wr, m.Mem.Wr...)
		l.md = m.Mem.Diff()
	}
	if m.IO != nil {
		l.pio = append(l.pio, m.IO.Log...)
	}
	return l
}

func (l runLog) json() string {
	return fmt.Sprintf(`{"pre":%s,"post":%s,"h":%d,"rd":%s,"wr":%s,"pio":%s,"md":%s,"moved":%d,"pcs":%s}`,
		jInts(l.pre[:]), jInts(l.post[:]), b2i(l.halt), jU16(l.rd), jPairs(l.wr), jTriples(l.pio), jPairs(l.md), l.idxMoved, jInts(l.pcs))
}

// EmitPair runs the DD form (given), the mirrored FD form, and both again with
// the other index register changed; writes the four runs and the "m" event.
func EmitPair(dd *InitSpec, w *bufio.Writer) {
	// FD form: same bytes with FD, IX and IY exchanged
	fd := *dd
	fd.R = swapIdx(dd.R)
	fd.Cells = append([][2]int{}, dd.Cells...)
	pc := dd.R[21]
	for k := range fd.Cells {
		if fd.Cells[k][0] == pc {
			fd.Cells[k][1] = 0xfd
		}
	}
	a := runOnce(dd, w)
	b := runOnce(&fd, w)
	// non-interference: change the other index register and re-run
	dd2 := *dd
	dd2.R[18], dd2.R[19] = dd.R[18]^0x5a, dd.R[19]^0xa5
	fd2 := fd
	fd2.R[16], fd2.R[17] = fd.R[16]^0x5a, fd.R[17]^0xa5
	a2 := runOnce(&dd2, nil)
	b2 := runOnce(&fd2, nil)
	// the same pair on a paging latch: the k-th access of the Step replaces CPU.Memory, for every k
	var latch []string
	for k := 1; k <= len(a.rd)+len(a.wr) && k <= 8; k++ {
		a3 := runOnceSwap(dd, nil, k)
		b3 := runOnceSwap(&fd, nil, k)
		latch = append(latch, "["+a3.json()+","+b3.json()+"]")
	}
	fmt.Fprintf(w, `{"e":"m","dd":%s,"fd":%s,"dd2":%s,"fd2":%s,"latch":[%s]}`+"\n", a.json(), b.json(), a2.json(), b2.json(),
		strings.Join(latch, ","))
}

func cmdPairs(args []string) {
	fs := flag.NewFlagSet("pairs", flag.ExitOnError)
	out := fs.String("out", "", "output directory")
	shards := fs.Int("shards", 16, "shards")
	n := fs.Int("n", 64, "pre-states per encoding")
	seed := fs.Int64("seed", 1, "seed")
	fs.Parse(args)
	for sh := 0; sh < *shards; sh++ {
		r := rand.New(rand.NewSource(*seed*977 + int64(sh)))
		f, w := openShard(*out, sh)
		for enc := sh; enc < 512; enc += *shards {
			cb, op := enc/256, enc%256
			for i := 0; i < *n; i++ {
				tbl := 3 + 2*cb // 3 = DD, 5 = DDCB
				dd := RandInit(r, tbl, op)
				if i%4 == 0 { // structured: distinct registers, boundary displacement
					dd = CatInit(tbl, op, i, *seed, false)
				}
				if i%4 == 1 { // index register halves at the byte boundaries (carries between the halves)
					bv := []int{0x00, 0xff, 0x7f, 0x80, 0x0f, 0x10, 0x01, 0xfe}
					dd.R[16], dd.R[17] = bv[r.Intn(8)], bv[(i/4)%8]
					dd.R[18], dd.R[19] = bv[r.Intn(8)], bv[(i/4+3)%8]
				}
				// the relation is about executing the instruction: no request is pending (an accepting Step does not
				// fetch it, and its vector table may lie on the prefix byte)
				dd.Pend = []int{}
				EmitPair(dd, w)
			}
		}
		w.Flush()
		f.Close()
	}
}

// ---------------------------------------------------------------------------
// C12: totality fuzz. Arbitrary bytes, arbitrary States, short memories, nil
// IO, arbitrary requests. Steps run under recover(); a panic becomes an "x"
// event that the trace specification rejects.

func safeStep(m *Machine, w *bufio.Writer) (ok bool) {
	defer func() {
		if e := recover(); e != nil {
			ok = false
			fmt.Fprintf(w, `{"e":"x","what":"panic","msg":%q}`+"\n", fmt.Sprint(e))
		}
	}()
	m.StepAndEmit(w)
	return true
}

func FuzzInit(r *rand.Rand) *InitSpec {
	is := &InitSpec{R: RandState(r)}
	switch r.Intn(6) {
	case 0:
		is.Dev = DevDesc{Kind: "dumb", Len: []int{0, 1, 2, 3, 256, 0x8000, 65535, 65536}[r.Intn(8)]}
	case 1:
		is.Dev = DevDesc{Kind: "map", Val: 0xc7, Len: 65536}
	default:
		is.Dev = DevDesc{Kind: "hash", Seed: r.Intn(1000), Len: 65536}
	}
	switch r.Intn(4) {
	case 0:
		is.IO = IODesc{Kind: "nil"}
	case 1:
		is.IO = IODesc{Kind: "dumb", Len: []int{0, 1, 2, 128, 255, 256}[r.Intn(6)]}
	default:
		is.IO = IODesc{Kind: "hash", Seed: r.Intn(1000)}
	}
	if r.Intn(5) == 0 {
		is.R[26] = []int{-1, 3, 7, 255, -128, 1 << 20}[r.Intn(6)]
	}
	if r.Intn(3) == 0 {
		is.R[21] = []int{0xffff, 0xfffe, 0xfffd, 0xfffc, 0}[r.Intn(5)]
	}
	is.Pend = FuzzPend(r)
	pc := is.R[21]
	var cells [][2]int
	// prefix-heavy byte strings
	n := 1 + r.Intn(8)
	for k := 0; k < n; k++ {
		b := r.Intn(256)
		if r.Intn(3) == 0 {
			b = []int{0xdd, 0xfd, 0xed, 0xcb, 0x76}[r.Intn(5)]
		}
		cells = append(cells, [2]int{(pc + k) & 0xffff, b})
	}
	is.Cells = dedupe(cells)
	if is.IO.Kind == "dumb" {
		for k := 0; k < 3; k++ {
			is.IOCells = append(is.IOCells, [2]int{r.Intn(256), r.Intn(256)})
		}
		is.IOCells = dedupe(is.IOCells)
		// cells outside the device are dropped by DumbIO.Out; keep only those inside
		var in [][2]int
		for _, c := range is.IOCells {
			if c[0] < is.IO.Len {
				in = append(in, c)
			}
		}
		is.IOCells = in
	}
	return is
}

func FuzzPend(r *rand.Rand) []int {
	switch r.Intn(8) {
	case 0:
		return []int{0}
	case 1:
		return []int{1}
	case 2:
		return []int{1, r.Intn(256)}
	case 3:
		p := []int{1}
		for k := 0; k < 1+r.Intn(5); k++ {
			b := r.Intn(256)
			if r.Intn(3) == 0 {
				b = []int{0xdd, 0xfd, 0xed, 0xcb, 0xcd, 0xc7, 0x76, 0xfb}[r.Intn(8)]
			}
			p = append(p, b)
		}
		return p
	}
	return []int{}
}

func cmdFuzz(args []string) {
	fs := flag.NewFlagSet("fuzz", flag.ExitOnError)
	out := fs.String("out", "", "output directory")
	shards := fs.Int("shards", 16, "shards")
	n := fs.Int("n", 2000, "scenarios per shard")
	steps := fs.Int("steps", 4, "Steps per scenario")
	seed := fs.Int64("seed", 1, "seed")
	fs.Parse(args)
	for sh := 0; sh < *shards; sh++ {
		r := rand.New(rand.NewSource(*seed*31337 + int64(sh)))
		f, w := openShard(*out, sh)
		for i := 0; i < *n; i++ {
			is := FuzzInit(r)
			if i == 0 && sh == 0 { // one very long mode-0 request
				is.R[24], is.R[26] = 1, 0
				is.Pend = make([]int, 70001)
				is.Pend[0] = 1
				for k := 1; k < len(is.Pend); k++ {
					is.Pend[k] = 0
				}
			}
			m := NewMachine(is)
			EmitInit(w, is)
			for s := 0; s < *steps; s++ {
				if s > 0 && r.Intn(4) == 0 {
					p := FuzzPend(r)
					m.CPU.Interrupt = PendDec(p)
					EmitRaise(w, p)
				}
				if !safeStep(m, w) {
					break
				}
			}
		}
		w.Flush()
		f.Close()
	}
}

var _ = z80.NMIType

// ---------------------------------------------------------------------------
// C14: refresh register sweep. Every decode point x starting R values x I
// values (single Steps), plus multi-Step block repeats, HALT parking (also
// entered with the halted indication already set) and LD A,R after prefixes.

func cmdRsweep(args []string) {
	fs := flag.NewFlagSet("rsweep", flag.ExitOnError)
	out := fs.String("out", "", "output directory")
	shards := fs.Int("shards", 16, "shards")
	rstep := fs.Int("rstep", 1, "stride over starting R values")
	seed := fs.Int64("seed", 1, "seed")
	fs.Parse(args)
	ivals := []int{0x00, 0x7f, 0x80, 0xff}
	for sh := 0; sh < *shards; sh++ {
		r := rand.New(rand.NewSource(*seed*4409 + int64(sh)))
		f, w := openShard(*out, sh)
		n := 0
		for dp := sh; dp < NTables*256; dp += *shards {
			for r0 := (dp % *rstep); r0 < 256; r0 += *rstep {
				is := RandInit(r, dp/256, dp%256)
				is.R[23] = r0
				is.R[22] = ivals[(n+r0)%4]
				n++
				m := NewMachine(is)
				EmitInit(w, is)
				m.StepAndEmit(w)
			}
		}
		// multi-Step programs
		for k := 0; k < 48; k++ {
			r0 := (k*37 + sh*11) & 0xff
			pc := []int{0x0100, 0xfffe, 0x8000}[k%3]
			var code []int
			steps := 6
			halt := false
			switch k % 6 {
			case 0: // LDIR with BC = 4: repeats count fetches
				code = []int{0xed, 0xb0, 0xed, 0x5f}
			case 1: // HALT parking: every Step spent halted is a fetch
				code = []int{0x76}
			case 2: // HALT entered with the halted indication already set
				code = []int{0x76}
				halt = true
			case 3: // CPIR, then LD A,R
				code = []int{0xed, 0xb1, 0xed, 0x5f}
			case 4: // OTIR with B = 3, then LD A,R
				code = []int{0xed, 0xb3, 0xed, 0x5f}
			case 5: // DD/FD/CB forms followed by LD A,R
				code = []int{0xdd, 0x23, 0xfd, 0xcb, 0x01, 0x06, 0xcb, 0x00, 0xed, 0x5f, 0xed, 0x4f}
			}
			is := &InitSpec{R: RandState(r), Pend: []int{}, Halt: halt}
			is.R[21], is.R[23] = pc, r0
			is.R[2], is.R[3] = 0, 4 // BC = 4
			if k%6 == 4 {
				is.R[2] = 3
			}
			is.R[6], is.R[7] = 0x40, 0x00
			is.R[4], is.R[5] = 0x50, 0x00
			is.R[0] = 0x99
			is.Dev = DevDesc{Kind: "const", Val: 0x11, Len: 65536}
			is.IO = IODesc{Kind: "hash", Seed: k}
			for i, b := range code {
				is.Cells = append(is.Cells, [2]int{(pc + i) & 0xffff, b})
			}
			m := NewMachine(is)
			EmitInit(w, is)
			for s := 0; s < steps; s++ {
				m.StepAndEmit(w)
			}
		}
		w.Flush()
		f.Close()
	}
}

// ---------------------------------------------------------------------------
// C09: block instructions. Per-Step traces (small and medium counts, overlap
// distances, source/destination covering the instruction itself, wrap) and
// whole-run events (count 0 = 65,536 Steps, 65,535, B = 0).

func blockInit(r *rand.Rand, op int, cnt int, hl, de, pc int, a int) *InitSpec {
	is := &InitSpec{R: RandState(r), Pend: []int{}}
	isIO := op == 0xb2 || op == 0xba || op == 0xb3 || op == 0xbb || op == 0xa2 || op == 0xaa || op == 0xa3 || op == 0xab
	if isIO {
		is.R[2] = cnt & 255
		is.R[3] = r.Intn(256)
	} else {
		is.R[2], is.R[3] = (cnt>>8)&255, cnt&255
	}
	is.R[0] = a
	is.R[6], is.R[7] = hl>>8, hl&255
	is.R[4], is.R[5] = de>>8, de&255
	is.R[21] = pc
	is.R[20] = 0x7000
	is.Dev = DevDesc{Kind: "hash", Seed: r.Intn(1000), Len: 65536}
	is.IO = IODesc{Kind: "hash", Seed: r.Intn(1000)}
	switch r.Intn(6) {
	case 0: // no port device attached
		is.IO = IODesc{Kind: "nil"}
	case 1:
		is.IO = IODesc{Kind: "dumb", Len: []int{0, 1, 128, 256}[r.Intn(4)]}
		is.IOCells = dedupe([][2]int{{r.Intn(256), r.Intn(256)}, {is.R[3], r.Intn(256)}})
	}
	is.Cells = [][2]int{{pc, 0xed}, {(pc + 1) & 0xffff, op}}
	return is
}

// stepWhole steps until PC leaves the instruction (or max Steps); returns the count.
func stepWhole(m *Machine, pc uint16, max int) int {
	n := 0
	for n < max {
		m.CPU.Step()
		n++
		if m.CPU.PC != pc {
			break
		}
	}
	return n
}

// WholeAndEmit steps until PC leaves the current instruction and writes the "w" event.
func (m *Machine) WholeAndEmit(w *bufio.Writer) {
	m.Mem.Reset()
	var pio [][3]int
	if m.IO != nil {
		m.IO.Reset()
	}
	steps := stepWhole(m, m.CPU.PC, 70000)
	if m.IO != nil {
		pio = m.IO.Log
	}
	rg := Regs(&m.CPU.States)
	fmt.Fprintf(w, `{"e":"w","steps":%d,"r":%s,"h":%d,"md":%s,"pio":%s}`+"\n", steps, jInts(rg[:]), b2i(m.CPU.HALT),
		jPairs(m.Mem.Diff()), jTriples(pio))
}

func cmdBlocks(args []string) {
	fs := flag.NewFlagSet("blocks", flag.ExitOnError)
	out := fs.String("out", "", "output directory")
	shards := fs.Int("shards", 16, "shards")
	n := fs.Int("n", 20, "per-Step scenarios per shard")
	whole := fs.Int("whole", 2, "whole-run scenarios per shard")
	big := fs.Bool("big", false, "include 65,536-Step runs")
	bare := fs.Bool("bare", false, "short DumbMemory attached directly; pointers around its end")
	seed := fs.Int64("seed", 1, "seed")
	fs.Parse(args)
	rep := []int{0xb0, 0xb8, 0xb1, 0xb9, 0xb2, 0xba, 0xb3, 0xbb}
	single := []int{0xa0, 0xa8, 0xa1, 0xa9, 0xa2, 0xaa, 0xa3, 0xab}
	for sh := 0; sh < *shards; sh++ {
		r := rand.New(rand.NewSource(*seed*2713 + int64(sh)))
		f, w := openShard(*out, sh)
		for i := 0; i < *n; i++ {
			op := rep[(i+sh)%8]
			pc := []int{0x0100, 0x4000, 0xfffe, 0xffff, 0x8000}[r.Intn(5)]
			hl := []int{0x6000, 0xfffc, 0x0002, pc, (pc - 3) & 0xffff, r.Intn(65536)}[r.Intn(6)]
			dist := []int{-3, -2, -1, 0, 1, 2, 3, 0x100, r.Intn(65536)}[r.Intn(9)]
			de := (hl + dist) & 0xffff
			if r.Intn(6) == 0 { // destination sweeping over the instruction itself
				de = (pc - 2 - r.Intn(3)) & 0xffff
			}
			cnt := []int{1, 2, 3, 255, 256, 1 + r.Intn(40), 1 + r.Intn(300)}[r.Intn(7)]
			if i%9 == 8 {
				op = single[(i+sh)%8]
				cnt = []int{0, 1, 2, 0x100, 0xffff}[r.Intn(5)]
			}
			a := r.Intn(256)
			if *bare { // pointers running off / onto the end of a short memory
				L := []int{32768, 4096, 65535}[r.Intn(3)]
				pc = r.Intn(L - 64)
				hl = (L - 3 + r.Intn(6)) & 0xffff
				if r.Intn(2) == 0 {
					de = r.Intn(L - 64)
				} else {
					de, hl = hl, r.Intn(L-64)
				}
				cnt = 1 + r.Intn(8)
				is := blockInit(r, op, cnt, hl, de, pc, a)
				is.Bare = true
				is.Dev = DevDesc{Kind: "dumb", Len: L}
				for k := 0; k < 12; k++ { // some non-zero data inside the memory
					is.Cells = append(is.Cells, [2]int{(L - 8 + k) & 0xffff, 1 + r.Intn(255)})
					is.Cells = append(is.Cells, [2]int{(de + k) & 0xffff, 1 + r.Intn(255)})
				}
				is.Cells = dedupe(append(is.Cells[2:], is.Cells[:2]...))
				m := NewMachine(is)
				EmitInit(w, is)
				for s := 0; s < 12; s++ {
					if !safeStep(m, w) || int(m.CPU.PC) != pc {
						break
					}
				}
				continue
			}
			is := blockInit(r, op, cnt, hl, de, pc, a)
			if op == 0xb1 || op == 0xb9 { // CPIR/CPDR: plant a match sometimes
				if r.Intn(2) == 0 {
					d := 1
					if op == 0xb9 {
						d = -1
					}
					is.Cells = append(is.Cells, [2]int{(hl + d*r.Intn(cnt+1)) & 0xffff, a})
					is.Cells = dedupe(append(is.Cells[2:], is.Cells[:2]...))
				}
			}
			m := NewMachine(is)
			EmitInit(w, is)
			for s := 0; s < 700; s++ {
				m.StepAndEmit(w)
				if int(m.CPU.PC) != pc {
					break
				}
			}
		}
		for i := 0; i < *whole; i++ {
			op := rep[(i+sh)%8]
			pc := []int{0x0100, 0x9000}[r.Intn(2)]
			hl := []int{0x6000, 0xfff0, 0x0000, r.Intn(65536)}[r.Intn(4)]
			dist := []int{-3, -1, 0, 1, 2, 7, 0x1000, r.Intn(65536)}[r.Intn(8)]
			cnt := []int{1, 2, 255, 256, 257, 1000 + r.Intn(3000)}[r.Intn(6)]
			isIO := op >= 0xb2 && op != 0xb8 && op != 0xb9 && (op&3) >= 2
			if *big && (i%2 == 0) {
				cnt = []int{0, 0xffff}[r.Intn(2)]
			}
			if isIO {
				cnt = []int{0, 1, 2, 255, r.Intn(256)}[r.Intn(5)]
			}
			a := r.Intn(256)
			if *big && (i%2 == 0) && (op == 0xb0 || op == 0xb8) {
				// 65,536 (65,535) repetitions that leave the opcode bytes as they are: a self-copy,
				// or the two opcode bytes propagated with period 2 over the whole address space
				switch r.Intn(3) {
				case 0:
					dist = 0
				default:
					if op == 0xb0 {
						hl, dist = pc, 2
					} else {
						hl, dist = (pc+1)&0xffff, -2
					}
				}
			}
			is := blockInit(r, op, cnt, hl, (hl+dist)&0xffff, pc, a)
			m := NewMachine(is)
			EmitInit(w, is)
			m.WholeAndEmit(w)
		}
		w.Flush()
		f.Close()
	}
}

// ---------------------------------------------------------------------------
// bare1: single Steps with the REAL memory types attached directly to the CPU
// (no recording wrapper), so that type-specific fast paths in the package are
// exercised: DumbMemory of several lengths (pointers, SP and immediate
// addresses biased to the last bytes of the slice and to the 64K wrap),
// MapMemory and the 64K array. Registers and the full memory image are compared.

func cmdBare1(args []string) {
	fs := flag.NewFlagSet("bare1", flag.ExitOnError)
	out := fs.String("out", "", "output directory")
	shards := fs.Int("shards", 16, "shards")
	n := fs.Int("n", 600, "Steps per shard")
	seed := fs.Int64("seed", 1, "seed")
	ctl := fs.Bool("ctl", false, "only jumps, calls, returns, RST, PUSH/POP, JP (rr): operands and stack words on the memory's end")
	words := fs.Bool("words", false, "only instructions that read or write a 16-bit word in memory; SP and nn always on the memory's end")
	fs.Parse(args)
	wordOps := []int{0x22, 0x2a, 0xe3, 0xcd, 0xc9, 0xc7, 0xff, 0xc5, 0xd5, 0xe5, 0xf5, 0xc1, 0xd1, 0xe1, 0xf1,
		2*256 + 0x43, 2*256 + 0x4b, 2*256 + 0x53, 2*256 + 0x5b, 2*256 + 0x63, 2*256 + 0x6b, 2*256 + 0x73, 2*256 + 0x7b,
		2*256 + 0x45, 2*256 + 0x4d, 2*256 + 0x55, 2*256 + 0x5d,
		3*256 + 0x22, 3*256 + 0x2a, 3*256 + 0xe3, 3*256 + 0xe5, 3*256 + 0xe1,
		4*256 + 0x22, 4*256 + 0x2a, 4*256 + 0xe3, 4*256 + 0xe5, 4*256 + 0xe1}
	ctlOps := []int{0xc3, 0xcd, 0xc9, 0x18, 0x10, 0xe9, 0xc5, 0xd5, 0xe5, 0xf5, 0xc1, 0xd1, 0xe1, 0xf1}
	for y := 0; y < 8; y++ {
		ctlOps = append(ctlOps, 0xc2+y*8, 0xc4+y*8, 0xc0+y*8, 0xc7+y*8)
		if y < 4 {
			ctlOps = append(ctlOps, 0x20+y*8)
		}
	}
	lens := []int{65536, 32768, 65535, 256, 4096, 65536}
	for sh := 0; sh < *shards; sh++ {
		r := rand.New(rand.NewSource(*seed*8191 + int64(sh)))
		f, w := openShard(*out, sh)
		for i := 0; i < *n; i++ {
			k := (i*7 + sh*131) % (NTables * 256)
			if *ctl {
				k = ctlOps[(i+sh*5)%len(ctlOps)]
				if i%9 == 8 {
					k = []int{3*256 + 0xe9, 4*256 + 0xe9, 3*256 + 0xe5, 4*256 + 0xe1, 2*256 + 0x45, 2*256 + 0x4d}[r.Intn(6)]
				}
			}
			if *words {
				k = wordOps[(i+sh*7)%len(wordOps)]
			}
			is := RandInit(r, k/256, k%256)
			is.Pend = []int{}
			is.Bare = true
			if k/256 == 2 && (k&0xc7 == 0x40 || k&0xc7 == 0x41 || k&0xe4 == 0xa0) || k == 0xd3 || k == 0xdb || r.Intn(3) == 0 {
				// port instructions (and a third of the others) with the bundled array port device, attached directly
				is.IO = IODesc{Kind: "dumb", Len: []int{256, 256, 0, 1, 128, 255}[r.Intn(6)]}
				is.IOCells = dedupe([][2]int{{r.Intn(256), r.Intn(256)}, {is.R[3], 1 + r.Intn(255)}, {is.R[0], 1 + r.Intn(255)}})
			}
			is.BareIO = is.IO.Kind == "dumb"
			if is.BareIO && is.IO.Len > 0 && r.Intn(2) == 0 { // the port register on the device's last port / just beyond it
				is.R[3] = (is.IO.Len - 1 + r.Intn(2)) & 255
			}
			L := 65536
			switch i % 4 {
			case 0, 1:
				L = lens[r.Intn(len(lens))]
				if *words && i%8 < 4 {
					L = 65536
				}
				is.Dev = DevDesc{Kind: "dumb", Len: L}
			case 2:
				is.Dev = DevDesc{Kind: "map", Val: 0xc7, Len: 65536}
			default:
				is.Dev = DevDesc{Kind: "hash", Seed: r.Intn(1000), Len: 65536}
			}
			// keep the instruction inside the memory, aim pointers at its last bytes
			pc := r.Intn(L-8+1) & 0xffff
			if L < 16 {
				pc = 0
			}
			if r.Intn(3) == 0 && L == 65536 {
				pc = []int{0xfffc, 0xfffd, 0xfffe, 0xffff}[r.Intn(4)]
			}
			if (r.Intn(4) == 0 || *ctl && r.Intn(2) == 0) && L < 65536 { // the instruction running off the end of a short memory (reads 0 there)
				pc = (L - 3 + r.Intn(6)) & 0xffff
			}
			if *ctl {
				is.R[1] = []int{0x00, 0xff, 0x45, 0x80, 0x01}[r.Intn(5)] // conditions taken and untaken
			}
			edge := func() int { return (L - 2 + r.Intn(4)) & 0xffff }
			old := is.R[21]
			is.R[21] = pc
			if r.Intn(2) == 0 || *words {
				is.R[20] = edge() // SP
			}
			if r.Intn(2) == 0 {
				v := edge()
				is.R[6], is.R[7] = v>>8, v&255 // HL
			}
			if r.Intn(3) == 0 {
				v := edge()
				is.R[16], is.R[17] = v>>8, v&255
				is.R[18], is.R[19] = v>>8, v&255
			}
			var cells [][2]int
			for _, c := range is.Cells { // move the instruction bytes to the new PC
				d := (c[0] - old) & 0xffff
				if d < 8 {
					cells = append(cells, [2]int{(pc + int(d)) & 0xffff, c[1]})
				}
			}
			if (r.Intn(2) == 0 || *words) && len(cells) >= 3 { // immediate word aimed at the edge (LD (nn),rr etc.)
				v := edge()
				tbl := k / 256
				off := 1
				if tbl >= 2 && tbl <= 4 {
					off = 2
				}
				for j := range cells {
					if cells[j][0] == (pc+off)&0xffff {
						cells[j][1] = v & 255
					}
					if cells[j][0] == (pc+off+1)&0xffff {
						cells[j][1] = v >> 8
					}
				}
			}
			if is.BareIO && is.IO.Len > 0 && (k == 0xd3 || k == 0xdb) && r.Intn(2) == 0 { // OUT (n),A / IN A,(n): n likewise
				for j := range cells {
					if cells[j][0] == (pc+1)&0xffff {
						cells[j][1] = (is.IO.Len - 1 + r.Intn(2)) & 255
					}
				}
			}
			if r.Intn(4) == 0 && !*words {
				is.Pend = [][]int{{0}, {1}, {1, 0xff}, {1, r.Intn(256)}}[r.Intn(4)]
				is.R[24] = 1
			}
			// non-zero bytes where a wrong wrap would land (start of the memory) and around the end
			for _, a := range []int{0, 1, 2, L - 1, L - 2} {
				if a >= 0 && r.Intn(2) == 0 {
					cells = append([][2]int{{a & 0xffff, 1 + r.Intn(255)}}, cells...)
				}
			}
			is.Cells = dedupe(cells)
			m := NewMachine(is)
			EmitInit(w, is)
			if !safeStep(m, w) {
				continue
			}
		}
		w.Flush()
		f.Close()
	}
}
