package main

// play: executes scenarios (one JSON object per line) on the real CPU and
// writes the recorded trace.  Scenarios come from TLC (mechanism G/P), from
// the structured catalogue, and from replay files.
//
//   {"init": {"r":[27 ints],"h":0,"dev":["hash",seed,val,len],"io":["hash",seed,len],
//             "cells":[[a,v]..],"iocells":[[p,v]..],"pend":[..]},
//    "ops": [["s"], ["s", 5], ["q",[1,255]], ["p",[[a,v]..]], ["snap"]]}
//
// ["s", n] = n Steps; ["snap"] = replace the CPU by a fresh one rebuilt from
// copies of States, memory and the pending request (C10).

import (
	"bufio"
	"encoding/json"
	"flag"
	"fmt"
	"os"
	"sync"
	"time"

	"github.com/koron-go/z80"
)

type ScenInit struct {
	Nin     int           `json:"nin"`
	Bare    bool          `json:"bare"`
	Sid     int           `json:"sid"`
	R       []int         `json:"r"`
	H       int           `json:"h"`
	Dev     []interface{} `json:"dev"`
	IO      []interface{} `json:"io"`
	Cells   [][2]int      `json:"cells"`
	IOCells [][2]int      `json:"iocells"`
	Pend    []int         `json:"pend"`
	Img     []int         `json:"img"`
	BareIO  bool          `json:"bareio"`
	HCfg    *int          `json:"hcfg"` // bit 0: RETN handler installed, bit 1: RETI handler installed (default both)
}

type Scenario struct {
	Init ScenInit          `json:"init"`
	Ops  []json.RawMessage `json:"ops"`
	Twin bool              `json:"twin"` // run a never-rebuilt twin alongside and require bit-identical behaviour
}

// twinDiff compares the machine with its twin after a Step (everything, including
// R and the undefined flag bits: determinism is about the code, not the spec).
func twinDiff(a, b *Machine) string {
	if a.CPU.States != b.CPU.States {
		return fmt.Sprintf("States differ: %v vs %v", Regs(&a.CPU.States), Regs(&b.CPU.States))
	}
	if a.CPU.HALT != b.CPU.HALT {
		return "HALT differs"
	}
	if fmt.Sprint(PendEnc(a.CPU.Interrupt)) != fmt.Sprint(PendEnc(b.CPU.Interrupt)) {
		return "pending request differs"
	}
	if fmt.Sprint(a.Mem.Rd) != fmt.Sprint(b.Mem.Rd) || fmt.Sprint(a.Mem.Wr) != fmt.Sprint(b.Mem.Wr) {
		return fmt.Sprintf("bus accesses differ: rd %v/%v wr %v/%v", a.Mem.Rd, b.Mem.Rd, a.Mem.Wr, b.Mem.Wr)
	}
	if a.IO != nil && fmt.Sprint(a.IO.Log) != fmt.Sprint(b.IO.Log) {
		return "port log differs"
	}
	if a.H.N != b.H.N || a.H.I != b.H.I {
		return "handler calls differ"
	}
	return ""
}

func toInt(v interface{}) int { return int(v.(float64)) }

func (si *ScenInit) Spec() *InitSpec {
	is := &InitSpec{Nin: si.Nin, Bare: si.Bare, Sid: si.Sid, Halt: si.H != 0, Cells: dedupe(si.Cells), IOCells: si.IOCells, Pend: si.Pend}
	copy(is.R[:], si.R)
	is.Dev = DevDesc{Kind: si.Dev[0].(string), Seed: toInt(si.Dev[1]), Val: toInt(si.Dev[2]), Len: toInt(si.Dev[3]), Img: si.Img}
	is.IO = IODesc{Kind: si.IO[0].(string), Seed: toInt(si.IO[1]), Len: toInt(si.IO[2])}
	if is.Pend == nil {
		is.Pend = []int{}
	}
	is.BareIO = si.BareIO && is.Bare && is.IO.Kind == "dumb"
	if si.HCfg != nil {
		is.NoHN, is.NoHI = *si.HCfg&1 == 0, *si.HCfg&2 == 0
	}
	return is
}

// Rebuild replaces the CPU with a fresh one made from copies (snapshot point).
func (m *Machine) Rebuild() {
	old := m.CPU
	// copy memory contents into a new inner device of the same kind
	var inner z80.Memory
	switch src := m.Mem.Inner.(type) {
	case *LazyMem:
		n := &LazyMem{seed: src.seed, val: src.val, ov: map[uint16]uint8{}}
		for k, v := range src.ov {
			n.ov[k] = v
		}
		inner = n
	case z80.MapMemory:
		inner = src.Clone()
	case z80.DumbMemory:
		n := make(z80.DumbMemory, len(src))
		copy(n, src)
		inner = n
	case *FlatMem:
		n := &FlatMem{}
		n.d = src.d
		inner = n
	}
	m.Mem = &RecMem{Inner: inner, Acc: &m.Acc}
	cpu := &z80.CPU{States: old.States, Memory: m.Mem, HALT: old.HALT}
	if m.IO != nil {
		nio := &RecIO{Desc: m.IO.Desc, Acc: &m.Acc, nin: m.IO.nin}
		if d, ok := m.IO.Inner.(z80.DumbIO); ok {
			n := make(z80.DumbIO, len(d))
			copy(n, d)
			nio.Inner = n
		}
		m.IO = nio
		cpu.IO = nio
	}
	if m.BareIO != nil {
		cpu.IO = m.BareIO
	}
	if old.Interrupt != nil {
		it := *old.Interrupt
		it.Data = append([]uint8(nil), old.Interrupt.Data...)
		cpu.Interrupt = &it
	}
	if old.BreakPoints != nil {
		cpu.BreakPoints = map[uint16]struct{}{}
		for k := range old.BreakPoints {
			cpu.BreakPoints[k] = struct{}{}
		}
	}
	m.installHandlers(cpu)
	m.CPU = cpu
}

// SwapMemory attaches a NEW recording memory holding a copy of the contents to the SAME CPU
// value (what a bank switch or the insertion of a tracing wrapper does). The old recorder is
// kept so that accesses still reaching it are noticed (they show up as missing accesses).
func (m *Machine) SwapMemory() {
	var inner z80.Memory
	switch src := m.Mem.Inner.(type) {
	case *LazyMem:
		n := &LazyMem{seed: src.seed, val: src.val, ov: map[uint16]uint8{}}
		for k, v := range src.ov {
			n.ov[k] = v
		}
		inner = n
	case z80.MapMemory:
		inner = src.Clone()
	case z80.DumbMemory:
		n := make(z80.DumbMemory, len(src))
		copy(n, src)
		inner = n
	case *FlatMem:
		n := &FlatMem{}
		n.d = src.d
		inner = n
	default:
		return
	}
	m.Mem = &RecMem{Inner: inner, Acc: &m.Acc}
	if m.Bare {
		m.CPU.Memory = inner
	} else {
		m.CPU.Memory = m.Mem
	}
}

func playScenario(sc *Scenario, w *bufio.Writer) {
	is := sc.Init.Spec()
	if len(sc.Ops) == 1 && string(sc.Ops[0]) == `"pair"` {
		EmitPair(is, w)
		return
	}
	m := NewMachine(is)
	var tw *Machine
	if sc.Twin {
		tw = NewMachine(is)
	}
	twinStep := func() bool {
		if tw == nil {
			return true
		}
		tw.Mem.Reset()
		if tw.IO != nil {
			tw.IO.Reset()
		}
		tw.CPU.Step()
		if d := twinDiff(m, tw); d != "" {
			fmt.Fprintf(w, `{"e":"x","what":"twin","msg":%q}`+"\n", d)
			return false
		}
		return true
	}
	EmitInit(w, is)
	for _, raw := range sc.Ops {
		var op []json.RawMessage
		if err := json.Unmarshal(raw, &op); err != nil || len(op) == 0 {
			panic("bad op")
		}
		var kind string
		json.Unmarshal(op[0], &kind)
		switch kind {
		case "s":
			n := 1
			if len(op) > 1 {
				json.Unmarshal(op[1], &n)
			}
			for i := 0; i < n; i++ {
				if !safeStep(m, w) || !twinStep() {
					return
				}
			}
		case "f": // feed: place instruction bytes at the current PC, then Step
			var code []int
			json.Unmarshal(op[1], &code)
			var cells [][2]int
			for i, b := range code {
				a := m.CPU.PC + uint16(i)
				m.Mem.Inner.Set(a, uint8(b))
				cells = append(cells, [2]int{int(a), b})
			}
			EmitPoke(w, cells)
			if tw != nil {
				for _, c := range cells {
					tw.Mem.Inner.Set(uint16(c[0]), uint8(c[1]))
				}
			}
			if !safeStep(m, w) || !twinStep() {
				return
			}
		case "q":
			var p []int
			json.Unmarshal(op[1], &p)
			m.CPU.Interrupt = PendDec(p)
			if tw != nil {
				tw.CPU.Interrupt = PendDec(p)
			}
			EmitRaise(w, p)
		case "p":
			var cells [][2]int
			json.Unmarshal(op[1], &cells)
			for _, c := range cells {
				m.Mem.Inner.Set(uint16(c[0]), uint8(c[1]))
				if tw != nil {
					tw.Mem.Inner.Set(uint16(c[0]), uint8(c[1]))
				}
			}
			EmitPoke(w, cells)
		case "r":
			var rs RunSpec
			if len(op) > 1 {
				json.Unmarshal(op[1], &rs)
			}
			if !m.RunAndEmit(w, &rs, 10*time.Second) {
				return
			}
		case "cpm":
			var sp0 int
			json.Unmarshal(op[2], &sp0)
			m.EmitCPM(w, string(op[1]), sp0)
		case "fork":
			// the host takes a value copy of the CPU (a save-state, a forked machine) and goes on with the copy; the
			// original is overwritten with garbage so that anything the copy still shares with it shows
			n := *m.CPU
			old := m.CPU
			m.CPU = &n
			var junk [27]int
			for i := range junk {
				junk[i] = (0xa5 + 37*i) & 0xff
			}
			junk[20], junk[21] = 0x5aa5, 0xa55a
			SetRegs(&old.States, junk)
			old.HALT = !old.HALT
			fmt.Fprintln(w, `{"e":"fork"}`)
		case "regs":
			// the host loads registers (starts another program on the same CPU); HALT is left as it is
			var r [27]int
			json.Unmarshal(op[1], &r)
			SetRegs(&m.CPU.States, r)
			fmt.Fprintf(w, `{"e":"regs","r":%s}`+"\n", jInts(r[:]))
		case "con":
			// the host reconfigures the console writer of the mini CP/M machine
			var kind string
			json.Unmarshal(op[1], &kind)
			if m.SetCon != nil {
				m.SetCon(kind)
			}
			fmt.Fprintf(w, `{"e":"con","kind":%q}`+"\n", kind)
		case "w":
			m.WholeAndEmit(w)
		case "swapmem":
			m.SwapMemory()
		case "snap":
			m.Rebuild()
		default:
			panic("unknown op " + kind)
		}
	}
}

func cmdPlay(args []string) {
	fs := flag.NewFlagSet("play", flag.ExitOnError)
	in := fs.String("in", "", "scenario ndjson")
	out := fs.String("out", "", "trace ndjson")
	fs.Parse(args)
	f, err := os.Open(*in)
	if err != nil {
		fmt.Println("MACHINERY-ERROR", err)
		os.Exit(2)
	}
	defer f.Close()
	o, err := os.Create(*out)
	if err != nil {
		fmt.Println("MACHINERY-ERROR", err)
		os.Exit(2)
	}
	defer o.Close()
	w := bufio.NewWriterSize(o, 1<<20)
	sc := bufio.NewScanner(f)
	sc.Buffer(make([]byte, 1<<20), 64<<20)
	n, skipped := 0, 0
	for sc.Scan() {
		if len(sc.Bytes()) == 0 {
			continue
		}
		var s Scenario
		if err := json.Unmarshal(sc.Bytes(), &s); err != nil {
			fmt.Println("MACHINERY-ERROR bad scenario:", err)
			os.Exit(2)
		}
		if Hangs >= 3 {
			// three Runs of this process never returned: each keeps a core busy and costs the watchdog time;
			// the rest of this shard is not played (the hangs already decide the run)
			skipped++
			continue
		}
		playScenario(&s, w)
		n++
	}
	w.Flush()
	fmt.Printf("play: %d scenarios, %d not played after %d hangs\n", n, skipped, Hangs)
}

// par: isolation (C10). The scenarios are dealt to N goroutines; each goroutine
// owns its CPUs, memories and trace file. Built with -race by the driver.
func cmdPar(args []string) {
	fs := flag.NewFlagSet("par", flag.ExitOnError)
	in := fs.String("in", "", "scenario ndjson")
	out := fs.String("out", "", "output directory")
	n := fs.Int("cpus", 8, "goroutines")
	fs.Parse(args)
	f, err := os.Open(*in)
	if err != nil {
		fmt.Println("MACHINERY-ERROR", err)
		os.Exit(2)
	}
	defer f.Close()
	sc := bufio.NewScanner(f)
	sc.Buffer(make([]byte, 1<<20), 64<<20)
	var all []*Scenario
	for sc.Scan() {
		var s Scenario
		if err := json.Unmarshal(sc.Bytes(), &s); err != nil {
			fmt.Println("MACHINERY-ERROR bad scenario:", err)
			os.Exit(2)
		}
		all = append(all, &s)
	}
	var wg sync.WaitGroup
	start := make(chan struct{})
	for g := 0; g < *n; g++ {
		wg.Add(1)
		go func(g int) {
			defer wg.Done()
			o, err := os.Create(fmt.Sprintf("%s/trace_%02d.ndjson", *out, g))
			if err != nil {
				panic(err)
			}
			defer o.Close()
			w := bufio.NewWriterSize(o, 1<<20)
			defer w.Flush()
			<-start
			for i := g; i < len(all); i += *n {
				playScenario(all[i], w)
			}
		}(g)
	}
	close(start)
	wg.Wait()
	fmt.Printf("par: %d scenarios on %d goroutines\n", len(all), *n)
}
