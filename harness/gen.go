package main

// Pre-state generators for single-Step and multi-Step recordings.

import (
	"math/rand"
)

var bnd16 = []int{0, 1, 2, 0x00ff, 0x0100, 0x7fff, 0x8000, 0xfffd, 0xfffe, 0xffff, 0x0066, 0x0038}
var bnd8 = []int{0, 1, 2, 0x0f, 0x10, 0x7f, 0x80, 0x81, 0xfe, 0xff, 0x99, 0x9a, 0x55, 0xaa}

// Tables of the decoder: 0 main, 1 CB, 2 ED, 3 DD, 4 FD, 5 DDCB, 6 FDCB.
const NTables = 7

// EncBytes returns the instruction bytes of decode point (table, op) with the
// given operand bytes (d = displacement, n1/n2 = immediate bytes).
func EncBytes(table, op, d, n1, n2 int) []int {
	switch table {
	case 0:
		return []int{op, n1, n2, d}
	case 1:
		return []int{0xcb, op, n1, n2}
	case 2:
		return []int{0xed, op, n1, n2}
	case 3:
		return []int{0xdd, op, d, n1, n2}
	case 4:
		return []int{0xfd, op, d, n1, n2}
	case 5:
		return []int{0xdd, 0xcb, d, op, n1}
	case 6:
		return []int{0xfd, 0xcb, d, op, n1}
	}
	panic("table")
}

func pick(r *rand.Rand, xs []int) int { return xs[r.Intn(len(xs))] }

func rnd8(r *rand.Rand) int {
	if r.Intn(4) == 0 {
		return pick(r, bnd8)
	}
	return r.Intn(256)
}

func rnd16(r *rand.Rand, pc int, others []int) int {
	switch k := r.Intn(10); {
	case k < 4:
		return r.Intn(65536)
	case k < 6:
		return pick(r, bnd16)
	case k < 8:
		return (pc + r.Intn(10) - 3) & 0xffff
	default:
		if len(others) > 0 {
			return (pick(r, others) + r.Intn(7) - 3) & 0xffff
		}
		return r.Intn(65536)
	}
}

// dedupe keeps the last value given for every address.
func dedupe(cells [][2]int) [][2]int {
	last := map[int]int{}
	for i, c := range cells {
		last[c[0]] = i
	}
	var out [][2]int
	for i, c := range cells {
		if last[c[0]] == i {
			out = append(out, c)
		}
	}
	return out
}

// RandState draws a biased-random register file.
func RandState(r *rand.Rand) [27]int {
	var s [27]int
	pc := r.Intn(65536)
	if r.Intn(2) == 0 {
		pc = pick(r, []int{0, 1, 0x0100, 0xfffb, 0xfffc, 0xfffd, 0xfffe, 0xffff, 0x8000})
	}
	var ptrs []int
	p16 := func() int { v := rnd16(r, pc, ptrs); ptrs = append(ptrs, v); return v }
	s[0] = rnd8(r)
	switch r.Intn(4) {
	case 0:
		s[1] = pick(r, []int{0, 0xff, 0x01, 0xfe, 0x55, 0xaa, 0x10, 0x02, 0x40, 0x80, 0x04})
	default:
		s[1] = r.Intn(256)
	}
	bc, de, hl := p16(), p16(), p16()
	s[2], s[3], s[4], s[5], s[6], s[7] = bc>>8, bc&255, de>>8, de&255, hl>>8, hl&255
	if r.Intn(4) == 0 {
		s[2] = pick(r, []int{0, 1, 2, 0xff})
	}
	if r.Intn(6) == 0 {
		s[2], s[3] = 0, pick(r, []int{0, 1, 2})
	}
	for i := 8; i < 16; i++ {
		s[i] = r.Intn(256)
	}
	ix, iy := p16(), p16()
	s[16], s[17], s[18], s[19] = ix>>8, ix&255, iy>>8, iy&255
	s[20] = p16()
	s[21] = pc
	s[22], s[23] = rnd8(r), rnd8(r)
	s[24], s[25] = r.Intn(2), r.Intn(2)
	s[26] = r.Intn(3)
	return s
}

// RandInit builds an init event executing decode point (table, op).
func RandInit(r *rand.Rand, table, op int) *InitSpec {
	is := &InitSpec{R: RandState(r)}
	is.Dev = DevDesc{Kind: "hash", Seed: r.Intn(1000), Len: 65536}
	is.IO = IODesc{Kind: "hash", Seed: r.Intn(1000)}
	switch r.Intn(8) {
	case 0: // no port device attached
		is.IO = IODesc{Kind: "nil"}
	case 1: // the bundled array device, short ones too
		is.IO = IODesc{Kind: "dumb", Len: []int{0, 1, 2, 128, 255, 256}[r.Intn(6)]}
		for k := 0; k < 3; k++ {
			is.IOCells = append(is.IOCells, [2]int{r.Intn(256), r.Intn(256)})
		}
		is.IOCells = dedupe(is.IOCells)
	}
	switch r.Intn(8) { // which notification handlers the host installed
	case 0:
		is.NoHN = true
	case 1:
		is.NoHI = true
	case 2:
		is.NoHN, is.NoHI = true, true
	}
	is.Pend = []int{}
	s := is.R
	pc := s[21]
	var d int
	switch r.Intn(3) {
	case 0:
		d = pick(r, []int{0x80, 0xff, 0, 1, 0x7f, 0xfe, 2})
	default:
		d = r.Intn(256)
	}
	n1, n2 := rnd8(r), rnd8(r)
	if r.Intn(4) == 0 { // immediate word pointing at something interesting
		t := rnd16(r, pc, []int{s[20], s[6]<<8 | s[7]})
		n1, n2 = t&255, t>>8
	}
	// interesting data under the pointers
	var cells [][2]int
	hl := s[6]<<8 | s[7]
	ix := s[16]<<8 | s[17]
	iy := s[18]<<8 | s[19]
	sd := d
	if sd >= 128 {
		sd -= 256
	}
	for _, a := range []int{hl, (ix + sd) & 0xffff, (iy + sd) & 0xffff, s[20], (s[20] + 1) & 0xffff, s[4]<<8 | s[5], s[2]<<8 | s[3]} {
		switch r.Intn(5) {
		case 0:
			cells = append(cells, [2]int{a, s[0]}) // equal to A (CPIR matches)
		case 1:
			cells = append(cells, [2]int{a, pick(r, bnd8)})
		}
	}
	for i, b := range EncBytes(table, op, d, n1, n2) {
		cells = append(cells, [2]int{(pc + i) & 0xffff, b})
	}
	is.Cells = dedupe(cells)
	// now and then a request is pending: refused (the instruction runs with it pending) or accepted
	if r.Intn(12) == 0 {
		is.Pend = [][]int{{1}, {1, 0xff}, {1, r.Intn(256)}, {0}, {1, 0xcd, 0x34, 0x12}}[r.Intn(5)]
		if r.Intn(3) != 0 {
			is.R[24] = 0 // IFF1 clear: a maskable request is refused and stays pending
		}
	}
	return is
}
