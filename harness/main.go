package main

import (
	"bufio"
	"flag"
	"fmt"
	"io"
	"log"
	"math/rand"
	"os"
	"path/filepath"
)

func openShard(dir string, i int) (*os.File, *bufio.Writer) {
	f, err := os.Create(filepath.Join(dir, fmt.Sprintf("trace_%02d.ndjson", i)))
	if err != nil {
		panic(err)
	}
	return f, bufio.NewWriterSize(f, 1<<20)
}

// cmdRand1: n independent random single Steps per shard, cycling through all
// 7 x 256 decode points so every one is exercised.
func cmdRand1(args []string) {
	fs := flag.NewFlagSet("rand1", flag.ExitOnError)
	out := fs.String("out", "", "output directory")
	shards := fs.Int("shards", 16, "number of shard files")
	n := fs.Int("n", 1792, "events per shard")
	seed := fs.Int64("seed", 1, "seed")
	tables := fs.String("tables", "0123456", "decode tables to draw from")
	fs.Parse(args)
	for sh := 0; sh < *shards; sh++ {
		r := rand.New(rand.NewSource(*seed*1000 + int64(sh)))
		f, w := openShard(*out, sh)
		for i := 0; i < *n; i++ {
			k := (i + sh*113) % (len(*tables) * 256)
			table := int((*tables)[k/256] - '0')
			is := RandInit(r, table, k%256)
			m := NewMachine(is)
			EmitInit(w, is)
			m.StepAndEmit(w)
		}
		w.Flush()
		f.Close()
	}
}

func main() {
	log.SetOutput(io.Discard)
	if len(os.Args) < 2 {
		fmt.Println("usage: verifh <cmd> ...")
		os.Exit(2)
	}
	switch os.Args[1] {
	case "rand1":
		cmdRand1(os.Args[2:])
	case "cat1":
		cmdCat1(os.Args[2:])
	case "ctl":
		cmdCtl(os.Args[2:])
	case "pairs":
		cmdPairs(os.Args[2:])
	case "fuzz":
		cmdFuzz(os.Args[2:])
	case "rsweep":
		cmdRsweep(os.Args[2:])
	case "transp":
		cmdTransp(os.Args[2:])
	case "blocks":
		cmdBlocks(os.Args[2:])
	case "par":
		cmdPar(os.Args[2:])
	case "cancel":
		cmdCancel(os.Args[2:])
	case "memio":
		cmdMemIO(os.Args[2:])
	case "memioreplay":
		cmdMemIOReplay(os.Args[2:])
	case "zexdump":
		cmdZexDump(os.Args[2:])
	case "cpmdump":
		cmdCpmDump(os.Args[2:])
	case "gcheck":
		cmdGCheck(os.Args[2:])
	case "hooktrace":
		cmdHookTrace(os.Args[2:])
	case "corpus2scen":
		cmdCorpus2Scen(os.Args[2:])
	case "progwin":
		cmdProgWin(os.Args[2:])
	case "longtwin":
		cmdLongTwin(os.Args[2:])
	case "bare1":
		cmdBare1(os.Args[2:])
	case "first1":
		cmdFirst1(os.Args[2:])
	case "firstall":
		cmdFirstAll(os.Args[2:])
	case "vol1":
		cmdVol1(os.Args[2:])
	case "play":
		cmdPlay(os.Args[2:])
	case "sweep16":
		cmdSweep16(os.Args[2:])
	case "sweepflags":
		cmdSweepFlags(os.Args[2:])
	case "sweep8":
		cmdSweep8(os.Args[2:])
	default:
		fmt.Println("unknown command")
		os.Exit(2)
	}
}
