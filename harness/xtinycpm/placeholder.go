// Package tinycpm: placeholder; replaced at build time by a copy of /repo/internal/tinycpm.
package tinycpm
