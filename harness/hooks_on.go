//go:build verifhooks

package main

import "github.com/koron-go/z80"

// HooksAvailable reports whether the package under test exposes VerifHook.
const HooksAvailable = true

func setHook(f func(ev string)) { z80.VerifHook = f }
