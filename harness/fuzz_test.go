package main

import (
	"io"
	"log"
	"testing"
)

// FuzzStep drives CPU.Step from decoded inputs. No oracle here: the engine's
// coverage feedback finds inputs that reach new code in the package under
// test (rare guarded branches included); a panic is reported as a crasher.
func FuzzStep(f *testing.F) {
	log.SetOutput(io.Discard)
	for table := 0; table < NTables; table++ {
		for op := 0; op < 256; op++ {
			f.Add(FuzzSeed(table, op, (op+table)%16))
		}
	}
	f.Fuzz(func(t *testing.T, data []byte) {
		is, steps, ok := FuzzDecode(data)
		if !ok {
			return
		}
		m := NewMachine(is)
		for i := 0; i < steps; i++ {
			m.Mem.Reset()
			if m.IO != nil {
				m.IO.Reset()
			}
			m.CPU.Step()
		}
	})
}
