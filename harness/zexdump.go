package main

// C17: dumps the Go exerciser tables (from the copy of internal/zex taken at
// build time) and the bytes of the canonical program images for TLC.

import (
	"encoding/json"
	"flag"
	"fmt"
	"os"

	zex "verifh/xzex"
)

func caseBytes(c zex.Case) []int {
	var out []int
	out = append(out, int(c.FlagMask))
	for _, s := range []zex.Status{c.BaseCase, c.IncVec, c.ShiftVec} {
		for _, b := range s.Bytes() {
			out = append(out, int(b))
		}
	}
	e := uint32(c.Expect)
	out = append(out, int(e>>24), int(e>>16)&255, int(e>>8)&255, int(e)&255)
	return out
}

func cmdZexDump(args []string) {
	fs := flag.NewFlagSet("zexdump", flag.ExitOnError)
	doc := fs.String("doc", "", "zexdoc.cim")
	all := fs.String("all", "", "zexall.cim")
	out := fs.String("out", "", "output directory")
	fs.Parse(args)
	dump := func(name, img string, cases []zex.Case) {
		b, err := os.ReadFile(img)
		if err != nil {
			fmt.Println("MACHINERY-ERROR", err)
			os.Exit(2)
		}
		ib := make([]int, len(b))
		for i := range b {
			ib[i] = int(b[i])
		}
		type cs struct {
			B []int `json:"b"`
			D []int `json:"d"`
		}
		var cl []cs
		for _, c := range cases {
			d := []int{}
			for _, ch := range []byte(c.Desc) {
				d = append(d, int(ch))
			}
			cl = append(cl, cs{B: caseBytes(c), D: d})
		}
		j, _ := json.Marshal(map[string]interface{}{"img": ib, "cases": cl})
		os.WriteFile(*out+"/"+name+".json", j, 0o644)
	}
	dump("doc", *doc, zex.DocCases)
	dump("all", *all, zex.AllCases)
	fmt.Printf("zexdump: %d doc cases, %d all cases\n", len(zex.DocCases), len(zex.AllCases))
}
