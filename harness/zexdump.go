package main

// C17: dumps the Go exerciser tables (from the copy of internal/zex taken at
// build time) and the bytes of the canonical program images for TLC.

import (
	"encoding/json"
	"flag"
	"fmt"
	"os"

	zex "verifh/xzex"
)

func caseBytes(c zex.Case) []int {
	var out []int
	out = append(out, int(c.FlagMask))
	for _, s := range []zex.Status{c.BaseCase, c.IncVec, c.ShiftVec} {
		for _, b := range s.Bytes() {
			out = append(out, int(b))
		}
	}
	e := uint32(c.Expect)
	out = append(out, int(e>>24), int(e>>16)&255, int(e>>8)&255, int(e)&255)
	return out
}

// useTables does what a harness built on the package may do with the tables: every exported method on the table
// elements themselves, the returned slices overwritten (zexdoc masks the flag byte in its state image), private cases
// appended to a table.  None of it may change the tables: they are dumped again afterwards.
func useTables() {
	for _, tab := range [][]zex.Case{zex.DocCases, zex.AllCases} {
		for i := range tab {
			c := &tab[i]
			for _, s := range []*zex.Status{&c.BaseCase, &c.IncVec, &c.ShiftVec} {
				b := s.Bytes()
				for j := range b {
					b[j] ^= 0xff
				}
				_ = s.String()
				_ = s.OnesCount()
			}
			sm, cm := c.Maxes()
			it := c.Iter()
			for _, p := range [][2]uint64{{0, 0}, {sm, cm}, {1, 1}} {
				st := it.Status(p[0], p[1])
				b := st.Bytes()
				for j := range b {
					b[j] = 0x5a
				}
			}
			d := []byte(c.Desc)
			for j := range d {
				d[j] = '#'
			}
		}
	}
	private := zex.Case{Desc: "private case", FlagMask: 0x12, Expect: 0xdeadbeef}
	_ = append(zex.DocCases, private, private)
	_ = append(zex.AllCases, private, private)
}

func cmdZexDump(args []string) {
	fs := flag.NewFlagSet("zexdump", flag.ExitOnError)
	doc := fs.String("doc", "", "zexdoc.cim")
	all := fs.String("all", "", "zexall.cim")
	out := fs.String("out", "", "output directory")
	fs.Parse(args)
	dump := func(name, img string, cases []zex.Case) {
		b, err := os.ReadFile(img)
		if err != nil {
			fmt.Println("MACHINERY-ERROR", err)
			os.Exit(2)
		}
		ib := make([]int, len(b))
		for i := range b {
			ib[i] = int(b[i])
		}
		type cs struct {
			B []int `json:"b"`
			D []int `json:"d"`
		}
		var cl []cs
		for _, c := range cases {
			d := []int{}
			for _, ch := range []byte(c.Desc) {
				d = append(d, int(ch))
			}
			cl = append(cl, cs{B: caseBytes(c), D: d})
		}
		j, _ := json.Marshal(map[string]interface{}{"img": ib, "cases": cl})
		os.WriteFile(*out+"/"+name+".json", j, 0o644)
	}
	dump("doc", *doc, zex.DocCases)
	dump("all", *all, zex.AllCases)
	useTables()
	dump("doc-used", *doc, zex.DocCases)
	dump("all-used", *all, zex.AllCases)
	fmt.Printf("zexdump: %d doc cases, %d all cases\n", len(zex.DocCases), len(zex.AllCases))
}
