module verifh

go 1.21

require github.com/koron-go/z80 v0.0.0

replace github.com/koron-go/z80 => /repo
