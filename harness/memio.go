package main

// C15: random / boundary-biased operation sequences on the bundled memory and
// port types, recorded with their results for validation by MemIOTrace.tla.

import (
	"bufio"
	"encoding/json"
	"flag"
	"fmt"
	"math/rand"
	"os"

	"github.com/koron-go/z80"
)

func cmdMemIO(args []string) {
	fs := flag.NewFlagSet("memio", flag.ExitOnError)
	out := fs.String("out", "", "output directory")
	shards := fs.Int("shards", 16, "shards")
	n := fs.Int("n", 200, "sequences per shard")
	ops := fs.Int("ops", 40, "operations per sequence")
	seed := fs.Int64("seed", 1, "seed")
	fs.Parse(args)
	lens := []int{0, 1, 2, 3, 255, 256, 257, 4096, 32768, 65535, 65536}
	for sh := 0; sh < *shards; sh++ {
		r := rand.New(rand.NewSource(*seed*523 + int64(sh)))
		f, w := openShard(*out, sh)
		id := 0
		for s := 0; s < *n; s++ {
			memioSequence(r, w, &id, lens, *ops)
		}
		w.Flush()
		f.Close()
	}
}

// equalForeign calls Equal with a value that is not a MapMemory: the same contents as a plain map (0), nil, a
// DumbMemory, a pointer to the MapMemory itself.
func equalForeign(mm z80.MapMemory, code int) bool {
	switch code {
	case 1000001:
		return mm.Equal(nil)
	case 1000002:
		return mm.Equal(make(z80.DumbMemory, 16))
	case 1000003:
		return mm.Equal(&mm)
	}
	return mm.Equal(map[uint16]uint8(mm))
}

type mobj struct {
	id   int
	kind string
	dm   z80.DumbMemory
	dio  z80.DumbIO
	mm   z80.MapMemory
	ln   int
}

func memioSequence(r *rand.Rand, w *bufio.Writer, idc *int, lens []int, nops int) {
	var objs []*mobj
	newObj := func(kind string) *mobj {
		*idc++
		o := &mobj{id: *idc, kind: kind}
		switch kind {
		case "dumbmem":
			o.ln = lens[r.Intn(len(lens))]
			if r.Intn(4) == 0 {
				o.ln = r.Intn(65537)
			}
			o.dm = make(z80.DumbMemory, o.ln)
		case "dumbio":
			o.ln = []int{0, 1, 2, 128, 255, 256}[r.Intn(6)]
			o.dio = make(z80.DumbIO, o.ln)
		case "mapmem":
			o.ln = 65536
			o.mm = z80.MapMemory{}
		}
		fmt.Fprintf(w, `{"o":"new","id":%d,"kind":"%s","len":%d}`+"\n", o.id, kind, o.ln)
		objs = append(objs, o)
		return o
	}
	newObj([]string{"dumbmem", "dumbio", "mapmem", "mapmem"}[r.Intn(4)])
	addr := func(o *mobj) int {
		space := 65536
		if o.kind == "dumbio" {
			space = 256
		}
		switch r.Intn(4) {
		case 0:
			c := []int{0, 1, o.ln - 1, o.ln, o.ln + 1, space - 1, space - 2}
			a := c[r.Intn(len(c))]
			if a < 0 {
				a = 0
			}
			return a % space
		case 1:
			return r.Intn(8) // collide often
		}
		return r.Intn(space)
	}
	defer func() {
		if e := recover(); e != nil {
			fmt.Fprintf(w, `{"o":"panic","msg":%q}`+"\n", fmt.Sprint(e))
		}
	}()
	for k := 0; k < nops; k++ {
		o := objs[r.Intn(len(objs))]
		a := addr(o)
		v := []int{0, 0xc7, 0x5a, r.Intn(256)}[r.Intn(4)]
		switch op := r.Intn(12); {
		case op < 4: // read
			switch o.kind {
			case "dumbmem":
				fmt.Fprintf(w, `{"o":"get","id":%d,"a":%d,"ret":%d}`+"\n", o.id, a, o.dm.Get(uint16(a)))
			case "dumbio":
				fmt.Fprintf(w, `{"o":"in","id":%d,"a":%d,"ret":%d}`+"\n", o.id, a, o.dio.In(uint8(a)))
			default:
				fmt.Fprintf(w, `{"o":"get","id":%d,"a":%d,"ret":%d}`+"\n", o.id, a, o.mm.Get(uint16(a)))
			}
		case op < 7: // write
			switch o.kind {
			case "dumbmem":
				fmt.Fprintf(w, `{"o":"set","id":%d,"a":%d,"v":%d}`+"\n", o.id, a, v)
				o.dm.Set(uint16(a), uint8(v))
			case "dumbio":
				fmt.Fprintf(w, `{"o":"out","id":%d,"a":%d,"v":%d}`+"\n", o.id, a, v)
				o.dio.Out(uint8(a), uint8(v))
			default:
				fmt.Fprintf(w, `{"o":"set","id":%d,"a":%d,"v":%d}`+"\n", o.id, a, v)
				o.mm.Set(uint16(a), uint8(v))
			}
		case op < 9: // put
			if o.kind == "dumbio" {
				continue
			}
			n := []int{0, 1, 2, 3, 16}[r.Intn(5)]
			if o.kind == "dumbmem" {
				if o.ln == 0 {
					n = 0
				}
				// a block lying inside the slice (the stated precondition), often flush with its end
				if a+n > o.ln {
					a = o.ln - n
				}
				if a < 0 {
					a, n = 0, 0
				}
				if r.Intn(3) == 0 {
					a = o.ln - n
				}
			} else if r.Intn(3) == 0 {
				a = 65536 - r.Intn(n+1) // wrap past FFFF
				if a > 65535 {
					a = 65535
				}
			}
			if o.kind == "mapmem" && r.Intn(60) == 0 { // a block longer than the address space: the last write wins
				n = 65536 + 1 + r.Intn(300)
				a = r.Intn(65536)
			}
			data := make([]uint8, n)
			di := make([]int, n)
			for i := range data {
				data[i] = uint8(r.Intn(256))
				di[i] = int(data[i])
			}
			fmt.Fprintf(w, `{"o":"put","id":%d,"a":%d,"data":%s}`+"\n", o.id, a, jInts(di))
			if o.kind == "dumbmem" {
				ret := o.dm.Put(uint16(a), data...)
				if len(ret) != len(o.dm) {
					fmt.Fprintf(w, `{"o":"panic","msg":"Put returned a different slice"}`+"\n")
				}
			} else {
				o.mm.Put(uint16(a), data...)
			}
		case op == 9: // clone
			if o.kind != "mapmem" || len(objs) >= 3 {
				continue
			}
			*idc++
			c := &mobj{id: *idc, kind: "mapmem", ln: 65536, mm: o.mm.Clone()}
			fmt.Fprintf(w, `{"o":"clone","id":%d,"new":%d}`+"\n", o.id, c.id)
			objs = append(objs, c)
		case op == 10: // clear
			if o.kind != "mapmem" || r.Intn(3) != 0 {
				continue
			}
			fmt.Fprintf(w, `{"o":"clear","id":%d}`+"\n", o.id)
			o.mm.Clear()
		default: // equal
			if o.kind != "mapmem" {
				continue
			}
			p := objs[r.Intn(len(objs))]
			var ret bool
			other := p.id
			switch {
			case r.Intn(4) == 0: // something that is not a MapMemory value (never equal)
				other = []int{0, 1000001, 1000002, 1000003}[r.Intn(4)]
				ret = equalForeign(o.mm, other)
			case p.kind == "mapmem":
				ret = o.mm.Equal(p.mm)
			case p.kind == "dumbmem":
				other = 1000002
				ret = equalForeign(o.mm, other)
			default:
				other = 0
				ret = equalForeign(o.mm, other)
			}
			fmt.Fprintf(w, `{"o":"equal","id":%d,"other":%d,"ret":%d}`+"\n", o.id, other, b2i(ret))
		}
	}
}

// memioreplay re-executes a recorded operation sequence (replay files).
func cmdMemIOReplay(args []string) {
	fs := flag.NewFlagSet("memioreplay", flag.ExitOnError)
	in := fs.String("in", "", "ops ndjson")
	out := fs.String("out", "", "trace")
	fs.Parse(args)
	type op struct {
		O     string
		Id    int
		Kind  string
		Len   int
		A, V  int
		Data  []int
		New   int
		Other int
	}
	var ops []op
	loadNDJSON(*in, func(b []byte) {
		var o op
		if err := json.Unmarshal(b, &o); err == nil {
			ops = append(ops, o)
		}
	})
	f, _ := os.Create(*out)
	defer f.Close()
	w := bufio.NewWriter(f)
	defer w.Flush()
	objs := map[int]*mobj{}
	defer func() {
		if e := recover(); e != nil {
			fmt.Fprintf(w, `{"o":"panic","msg":%q}`+"\n", fmt.Sprint(e))
		}
	}()
	for _, o := range ops {
		x := objs[o.Id]
		switch o.O {
		case "new":
			n := &mobj{id: o.Id, kind: o.Kind, ln: o.Len}
			switch o.Kind {
			case "dumbmem":
				n.dm = make(z80.DumbMemory, o.Len)
			case "dumbio":
				n.dio = make(z80.DumbIO, o.Len)
			default:
				n.mm = z80.MapMemory{}
			}
			objs[o.Id] = n
			fmt.Fprintf(w, `{"o":"new","id":%d,"kind":"%s","len":%d}`+"\n", o.Id, o.Kind, o.Len)
		case "get":
			v := 0
			if x.kind == "dumbmem" {
				v = int(x.dm.Get(uint16(o.A)))
			} else {
				v = int(x.mm.Get(uint16(o.A)))
			}
			fmt.Fprintf(w, `{"o":"get","id":%d,"a":%d,"ret":%d}`+"\n", o.Id, o.A, v)
		case "in":
			fmt.Fprintf(w, `{"o":"in","id":%d,"a":%d,"ret":%d}`+"\n", o.Id, o.A, x.dio.In(uint8(o.A)))
		case "set":
			fmt.Fprintf(w, `{"o":"set","id":%d,"a":%d,"v":%d}`+"\n", o.Id, o.A, o.V)
			if x.kind == "dumbmem" {
				x.dm.Set(uint16(o.A), uint8(o.V))
			} else {
				x.mm.Set(uint16(o.A), uint8(o.V))
			}
		case "out":
			fmt.Fprintf(w, `{"o":"out","id":%d,"a":%d,"v":%d}`+"\n", o.Id, o.A, o.V)
			x.dio.Out(uint8(o.A), uint8(o.V))
		case "put":
			d := make([]uint8, len(o.Data))
			for i := range d {
				d[i] = uint8(o.Data[i])
			}
			fmt.Fprintf(w, `{"o":"put","id":%d,"a":%d,"data":%s}`+"\n", o.Id, o.A, jInts(o.Data))
			if x.kind == "dumbmem" {
				x.dm.Put(uint16(o.A), d...)
			} else {
				x.mm.Put(uint16(o.A), d...)
			}
		case "clone":
			objs[o.New] = &mobj{id: o.New, kind: "mapmem", ln: 65536, mm: x.mm.Clone()}
			fmt.Fprintf(w, `{"o":"clone","id":%d,"new":%d}`+"\n", o.Id, o.New)
		case "clear":
			x.mm.Clear()
			fmt.Fprintf(w, `{"o":"clear","id":%d}`+"\n", o.Id)
		case "equal":
			var ret bool
			if o.Other == 0 || o.Other > 1000000 {
				ret = equalForeign(x.mm, o.Other)
			} else {
				ret = x.mm.Equal(objs[o.Other].mm)
			}
			fmt.Fprintf(w, `{"o":"equal","id":%d,"other":%d,"ret":%d}`+"\n", o.Id, o.Other, b2i(ret))
		}
	}
}

func loadNDJSON(path string, fn func([]byte)) {
	f, err := os.Open(path)
	if err != nil {
		fmt.Println("MACHINERY-ERROR", err)
		os.Exit(2)
	}
	defer f.Close()
	sc := bufio.NewScanner(f)
	sc.Buffer(make([]byte, 1<<20), 64<<20)
	for sc.Scan() {
		if len(sc.Bytes()) > 0 {
			fn(sc.Bytes())
		}
	}
}
