//go:build !verifhooks

package main

const HooksAvailable = false

func setHook(f func(ev string)) {}
