#!/bin/sh
# ./allseeds.sh <VERIF_SEED> : every seeded fault (not the refactors) against the quick tier of its target property
ids=$(ls seeded | grep -v "^refactor-\|RESULTS" | tr '\n' ' ')
VERIF_SEED=$1 ./check selftest $ids --jobs 2
