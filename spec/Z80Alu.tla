------------------------------- MODULE Z80Alu -------------------------------
(***************************************************************************)
(* The Z80's arithmetic, logic, rotate/shift, bit and block-flag rules as  *)
(* pure operators.  Each returns a record                                   *)
(*    v : result value(s)      f : the complete new F                        *)
(*    u : mask of the bits of f that the Z80 family leaves chip-dependent    *)
(*        (never compared)                                                   *)
(* Written from the arithmetic definition (sums, nibble sums, sign rule),   *)
(* not with the carry-vector XOR trick the implementation uses.             *)
(*                                                                           *)
(* Every operator takes the complete incoming F (fin) and states through    *)
(* Keep(fin, mask) which bits it preserves, so "F' depends on F only       *)
(* through the declared bits" is visible in the definition.                  *)
(***************************************************************************)
EXTENDS Z80Bits

CIn(fin) == fin % 2                      \* incoming carry
HIn(fin) == BitOf(fin, 4) = 1
NIn(fin) == BitOf(fin, 1) = 1

----------------------------------------------------------------------------
(* 8-bit add / subtract with carry-in c \in {0,1} *)
Add8(a, x, c) ==
  LET s == a + x + c
      r == s % 256
      h == (a % 16) + (x % 16) + c > 15
      v == (Neg7(a) = Neg7(x)) /\ (Neg7(r) # Neg7(a))
  IN [v |-> r, f |-> SZ(r) + X53(r) + IfF(h, FH) + IfF(v, FPV) + IfF(s > 255, FC)]

Sub8(a, x, c) ==
  LET s == a - x - c
      r == s % 256
      h == (a % 16) - (x % 16) - c < 0
      v == (Neg7(a) # Neg7(x)) /\ (Neg7(r) # Neg7(a))
  IN [v |-> r, f |-> SZ(r) + X53(r) + IfF(h, FH) + IfF(v, FPV) + FN + IfF(s < 0, FC)]

Logic8(r, isAnd) ==
  [v |-> r, f |-> SZ(r) + X53(r) + IfF(isAnd, FH) + IfF(ParityEven(r), FPV)]

(* alu[y] A,x : y = 0..7 = ADD ADC SUB SBC AND XOR OR CP.                  *)
(* Result: a = new accumulator, f = new F, u = undefined mask (none).       *)
Alu8(y, a, x, fin) ==
  LET c == CIn(fin)
      res == CASE y = 0 -> Add8(a, x, 0)
               [] y = 1 -> Add8(a, x, c)
               [] y = 2 -> Sub8(a, x, 0)
               [] y = 3 -> Sub8(a, x, c)
               [] y = 4 -> Logic8(a & x, TRUE)
               [] y = 5 -> Logic8(a ^^ x, FALSE)
               [] y = 6 -> Logic8(a | x, FALSE)
               [] y = 7 -> Sub8(a, x, 0)
  IN IF y = 7
       THEN \* CP: A unchanged, bits 5/3 come from the operand
            [a |-> a, f |-> (res.f - X53(res.v)) + X53(x), u |-> 0]
       ELSE [a |-> res.v, f |-> res.f, u |-> 0]

AluName == <<"ADD", "ADC", "SUB", "SBC", "AND", "XOR", "OR", "CP">>

Inc8(x, fin) ==
  LET r == (x + 1) % 256
  IN [v |-> r, u |-> 0,
      f |-> SZ(r) + X53(r) + IfF(x % 16 = 15, FH) + IfF(x = 127, FPV) + Keep(fin, FC)]

Dec8(x, fin) ==
  LET r == (x - 1) % 256
  IN [v |-> r, u |-> 0,
      f |-> SZ(r) + X53(r) + IfF(x % 16 = 0, FH) + IfF(x = 128, FPV) + FN + Keep(fin, FC)]

Neg8(a, fin) ==
  LET r == (256 - a) % 256
  IN [v |-> r, u |-> 0,
      f |-> SZ(r) + X53(r) + IfF(a % 16 # 0, FH) + IfF(a = 128, FPV) + FN + IfF(a # 0, FC)]

Cpl8(a, fin) ==
  LET r == 255 - a
  IN [v |-> r, u |-> 0,
      f |-> Keep(fin, FS + FZ + FPV + FC) + X53(r) + FH + FN]

Scf8(a, fin) ==
  [v |-> a, u |-> F5 + F3,
   f |-> Keep(fin, FS + FZ + FPV) + X53(a) + FC]

Ccf8(a, fin) ==
  [v |-> a, u |-> F5 + F3,
   f |-> Keep(fin, FS + FZ + FPV) + X53(a) + IfF(CIn(fin) = 1, FH) + IfF(CIn(fin) = 0, FC)]

(* DAA: decimal adjust after an addition (N = 0) or subtraction (N = 1).   *)
Daa8(a, fin) ==
  LET c == CIn(fin) = 1
      h == HIn(fin)
      n == NIn(fin)
      lowAdj  == h \/ (a % 16 > 9)
      highAdj == c \/ (a > 153)
      corr == IfF(lowAdj, 6) + IfF(highAdj, 96)
      r == IF n THEN (a - corr) % 256 ELSE (a + corr) % 256
      newH == IF n THEN h /\ (a % 16 < 6) ELSE a % 16 > 9
  IN [v |-> r, u |-> 0,
      f |-> SZ(r) + X53(r) + IfF(newH, FH) + IfF(ParityEven(r), FPV)
            + Keep(fin, FN) + IfF(highAdj, FC)]

----------------------------------------------------------------------------
(* accumulator rotates: keep S, Z, P/V; 5/3 from the result; H = N = 0 *)
RotA(kind, a, fin) ==
  LET c == CIn(fin)
      r == CASE kind = "RLCA" -> ((a * 2) % 256) + a \div 128
             [] kind = "RRCA" -> a \div 2 + (a % 2) * 128
             [] kind = "RLA"  -> ((a * 2) % 256) + c
             [] kind = "RRA"  -> a \div 2 + c * 128
      co == IF kind \in {"RLCA", "RLA"} THEN a \div 128 ELSE a % 2
  IN [v |-> r, u |-> 0, f |-> Keep(fin, FS + FZ + FPV) + X53(r) + co]

RotName == <<"RLC", "RRC", "RL", "RR", "SLA", "SRA", "SLL", "SRL">>

(* rot[y] x : y = 0..7 = RLC RRC RL RR SLA SRA SLL SRL *)
Rot8(y, x, fin) ==
  LET c == CIn(fin)
      r == CASE y = 0 -> ((x * 2) % 256) + x \div 128
             [] y = 1 -> x \div 2 + (x % 2) * 128
             [] y = 2 -> ((x * 2) % 256) + c
             [] y = 3 -> x \div 2 + c * 128
             [] y = 4 -> (x * 2) % 256
             [] y = 5 -> x \div 2 + (x \div 128) * 128
             [] y = 6 -> ((x * 2) % 256) + 1
             [] y = 7 -> x \div 2
      co == IF y \in {0, 2, 4, 6} THEN x \div 128 ELSE x % 2
  IN [v |-> r, u |-> 0, f |-> SZ(r) + X53(r) + IfF(ParityEven(r), FPV) + co]

(* RLD / RRD: 12-bit nibble rotation through A's low nibble and (HL) *)
Rld8(a, m, fin) ==
  LET a2 == (a \div 16) * 16 + m \div 16
      m2 == (m % 16) * 16 + (a % 16)
  IN [a |-> a2, m |-> m2, u |-> 0,
      f |-> SZ(a2) + X53(a2) + IfF(ParityEven(a2), FPV) + Keep(fin, FC)]

Rrd8(a, m, fin) ==
  LET a2 == (a \div 16) * 16 + (m % 16)
      m2 == (a % 16) * 16 + m \div 16
  IN [a |-> a2, m |-> m2, u |-> 0,
      f |-> SZ(a2) + X53(a2) + IfF(ParityEven(a2), FPV) + Keep(fin, FC)]

(* BIT b,x.  For register operands bits 5/3 come from the register; for     *)
(* memory operands ((HL), (IX+d), (IY+d)) chips differ: undefined.          *)
Bit8(b, x, fin, isMem) ==
  LET z == BitOf(x, b) = 0
  IN [u |-> IF isMem THEN F5 + F3 ELSE 0,
      f |-> Keep(fin, FC) + FH + IfF(z, FZ + FPV) + IfF(b = 7 /\ ~z, FS) + X53(x)]

Set8(b, x) == IF BitOf(x, b) = 1 THEN x ELSE x + P2(b)
Res8(b, x) == IF BitOf(x, b) = 1 THEN x - P2(b) ELSE x

----------------------------------------------------------------------------
(* 16-bit arithmetic on the 17-bit sum *)
Add16(a, x, fin) ==
  LET s == a + x
      r == s % 65536
      h == (a % 4096) + (x % 4096) > 4095
  IN [v |-> r, u |-> 0,
      f |-> Keep(fin, FS + FZ + FPV) + X53(HiB(r)) + IfF(h, FH) + IfF(s > 65535, FC)]

Adc16(a, x, fin) ==
  LET c == CIn(fin)
      s == a + x + c
      r == s % 65536
      h == (a % 4096) + (x % 4096) + c > 4095
      v == ((a >= 32768) = (x >= 32768)) /\ ((r >= 32768) # (a >= 32768))
  IN [v |-> r, u |-> 0,
      f |-> IfF(r >= 32768, FS) + IfF(r = 0, FZ) + X53(HiB(r)) + IfF(h, FH)
            + IfF(v, FPV) + IfF(s > 65535, FC)]

Sbc16(a, x, fin) ==
  LET c == CIn(fin)
      s == a - x - c
      r == s % 65536
      h == (a % 4096) - (x % 4096) - c < 0
      v == ((a >= 32768) # (x >= 32768)) /\ ((r >= 32768) # (a >= 32768))
  IN [v |-> r, u |-> 0,
      f |-> IfF(r >= 32768, FS) + IfF(r = 0, FZ) + X53(HiB(r)) + IfF(h, FH)
            + IfF(v, FPV) + FN + IfF(s < 0, FC)]

Inc16(x) == (x + 1) % 65536
Dec16(x) == (x - 1) % 65536

----------------------------------------------------------------------------
(* flag rules of the block instructions and of the I/O and I/R loads *)

\* LDI/LDD(R): a = accumulator, byte = byte copied, bc1 = BC after the decrement
LdiFlags(a, byte, bc1, fin) ==
  LET n == (a + byte) % 256
  IN [u |-> 0,
      f |-> Keep(fin, FS + FZ + FC) + IfF(bc1 # 0, FPV) + BitOf(n, 3) * 8 + BitOf(n, 1) * 32]

\* CPI/CPD(R)
CpiFlags(a, byte, bc1, fin) ==
  LET r == (a - byte) % 256
      h == (a % 16) - (byte % 16) < 0
      n == (r - IfF(h, 1)) % 256
  IN [u |-> 0, z |-> r = 0,
      f |-> SZ(r) + IfF(h, FH) + IfF(bc1 # 0, FPV) + FN + Keep(fin, FC)
            + BitOf(n, 3) * 8 + BitOf(n, 1) * 32]

\* INI/IND/OUTI/OUTD(+R): b1 = B after the decrement, byte = the byte moved,
\* k = the value silicon adds to the byte to form its internal carry
\* ((C+1)&FF for INI, (C-1)&FF for IND, L after the HL step for OUTI/OUTD).
\* Pinned: Z = (B-1 = 0); N is 1 (documented) or bit 7 of the byte (silicon);
\* C is kept (documented) or byte + k > 255 (silicon).  The rest is free.
IoBlockFlags(b1, byte, k, fin) ==
  LET siliconC == byte + k > 255
      keptC == CIn(fin) = 1
  IN [u |-> FS + FH + FPV + F5 + F3 + IfF(byte < 128, FN) + IfF(siliconC # keptC, FC),
      f |-> IfF(b1 = 0, FZ) + FN + Keep(fin, FC)]

\* IN r,(C)
InFlags(v, fin) ==
  [u |-> 0, f |-> SZ(v) + X53(v) + IfF(ParityEven(v), FPV) + Keep(fin, FC)]

\* LD A,I / LD A,R
IrFlags(v, iff2, fin) ==
  [u |-> 0, f |-> SZ(v) + X53(v) + IfF(iff2, FPV) + Keep(fin, FC)]

\* condition codes cc[0..7] = NZ Z NC C PO PE P M
Cond(cc, f) ==
  CASE cc = 0 -> BitOf(f, 6) = 0
    [] cc = 1 -> BitOf(f, 6) = 1
    [] cc = 2 -> BitOf(f, 0) = 0
    [] cc = 3 -> BitOf(f, 0) = 1
    [] cc = 4 -> BitOf(f, 2) = 0
    [] cc = 5 -> BitOf(f, 2) = 1
    [] cc = 6 -> BitOf(f, 7) = 0
    [] cc = 7 -> BitOf(f, 7) = 1

\* refresh register: n opcode fetches advance the low 7 bits, bit 7 stays
IncR(r, n) == (r \div 128) * 128 + (((r % 128) + n) % 128)
=============================================================================
