----------------------------- MODULE MC_TinyCPM -----------------------------
(***************************************************************************)
(* C18 on the specification: TLC EXECUTES the BDOS stub - whose bytes are   *)
(* read from the code at check time (cpmdump) - in the Z80 specification,   *)
(* exhaustively over strings of length 0..3 over the alphabet               *)
(* {00, '$', 'A', 80, FF} at three addresses (one crossing a page           *)
(* boundary), E over the same alphabet, functions 2 and 9, and sequences of *)
(* two calls.  Contract: from CALL 5 the run reaches the return address     *)
(* with out' = out \o <<E>> (C = 2) or the bytes from DE up to the first    *)
(* '$' (C = 9), SP and the caller's bytes unchanged; JP 0 ends halted at    *)
(* FF03.                                                                     *)
(***************************************************************************)
EXTENDS Z80Run, Json, IOUtils, SequencesExt

Bios == JsonDeserialize(IOEnv.BIOS)
BiosCells == [a \in {Bios.cells[i][1] : i \in 1 .. Len(Bios.cells)} |->
                Bios.cells[CHOOSE i \in 1 .. Len(Bios.cells) : Bios.cells[i][1] = a][2]]

Alpha == {0, 36, 65, 128, 255}
Strs == UNION {[1 .. n -> Alpha \ {36}] : n \in 0 .. 3}
StrAddrs == {1024, 767, 65024 - 2}          \* 02FF: crosses a page; FDFE: just below the BIOS page

Regs0 == [A |-> 10, F |-> 85, B |-> 17, C |-> 0, D |-> 0, E |-> 0, H |-> 64, L |-> 16,
          A_ |-> 1, F_ |-> 2, B_ |-> 3, C_ |-> 4, D_ |-> 5, E_ |-> 6, H_ |-> 7, L_ |-> 8,
          IXH |-> 80, IXL |-> 32, IYH |-> 96, IYL |-> 48, SP |-> 61440, PC |-> 256, I |-> 9, R |-> 10,
          IFF1 |-> FALSE, IFF2 |-> FALSE, IM |-> 0]
Ctx0 == [r |-> Regs0, m |-> BiosCells, dev |-> [mk |-> "const", seed |-> 0, val |-> 0, len |-> 65536],
         io |-> [ik |-> "console", seed |-> 0, len |-> 0], iom |-> <<>>, nin |-> 0, seen |-> <<>>, rd |-> <<>>, wr |-> <<>>, pio |-> <<>>,
         halt |-> FALSE, hc |-> <<0, 0>>, ovl |-> NoOvl, v |-> 0, u |-> 0, ralt |-> FALSE, tag |-> "",
         pend |-> None, aei |-> FALSE, rslack |-> 0]

\* program at 0100: CALL 5 ; JP 0
Prog == (256 :> 205) @@ (257 :> 5) @@ (258 :> 0) @@ (259 :> 195) @@ (260 :> 0) @@ (261 :> 0)
StrCells(a, s) == [x \in {W(a + i - 1) : i \in 1 .. (Len(s) + 1)} |->
                     LET i == CHOOSE i \in 1 .. (Len(s) + 1) : W(a + i - 1) = x
                     IN IF i = Len(s) + 1 THEN 36 ELSE s[i]]

Start(fn, e, a, s) == [Ctx0 EXCEPT !.r.C = fn, !.r.E = IF fn = 2 THEN e ELSE LoB(a), !.r.D = IF fn = 2 THEN 7 ELSE HiB(a),
                                   !.m = Prog @@ StrCells(a, s) @@ BiosCells]

\* run with a breakpoint on the return address (0103), then on to the end (JP 0 -> halted at FF03)
ToReturn(c) == RunResults(c, {259}, NoSched, 400).done
Console(x) == [i \in 1 .. Len(SelectSeq(x.pio, LAMBDA ev : ev[1] = 1 /\ ev[2] = 0)) |->
                 SelectSeq(x.pio, LAMBDA ev : ev[1] = 1 /\ ev[2] = 0)[i][3]]

CallOK(fn, e, a, s) ==
  LET c == Start(fn, e, a, s)
      res == ToReturn(c)
      x == CHOOSE x \in res : TRUE
      fin == RunResults(x.c, {}, NoSched, 50).done
      y == CHOOSE y \in fin : TRUE
  IN /\ Cardinality(res) = 1 /\ Stops(x, {259}) = "bp"
     /\ x.c.r.PC = 259 /\ x.c.r.SP = c.r.SP                                   \* back at the caller, SP restored
     /\ Console(x) = (IF fn = 2 THEN <<e>> ELSE s)                           \* the console got exactly the text
     /\ Len(x.pio) = Len(Console(x))                                          \* and no other port traffic (no warning)
     /\ \A adr \in DOMAIN Prog \cup DOMAIN StrCells(a, s) : Peek(x.c, adr) = Peek(c, adr)     \* caller's bytes intact
     \* wherever the caller's code or data lies: nothing but the two bytes CALL 5 pushed may have changed
     /\ \A adr \in DOMAIN x.c.m : Peek(x.c, adr) # Peek(c, adr) => adr \in {W(c.r.SP - 2), W(c.r.SP - 1)}
     /\ Cardinality(fin) = 1 /\ y.c.r.PC = 65283 /\ y.c.halt /\ y.c.r.SP = c.r.SP          \* JP 0: halted at FF03

Cases == {<<2, e, 1024, <<>>>> : e \in Alpha} \cup {<<9, 0, a, s>> : a \in StrAddrs, s \in Strs}
AllOK == \A t \in Cases : CallOK(t[1], t[2], t[3], t[4])
ASSUME AllOK
ASSUME PrintT(<<"TINYCPM-OK", Cardinality(Cases)>>)
=============================================================================
