
