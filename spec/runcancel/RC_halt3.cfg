SPECIFICATION Spec
CONSTANTS
  HaltAt = 3
  BpAt = 0
  DeferCancel = TRUE
  MaxSteps = 4
INVARIANTS TypeOK ReadsAfterWrite ErrImpliesCancelled ReturnsAtBoundary Prompt NoSpuriousError BpWins
PROPERTIES CancelLeadsToReturn NoLeak Terminates
CHECK_DEADLOCK FALSE
