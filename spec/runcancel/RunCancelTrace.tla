--------------------------- MODULE RunCancelTrace ---------------------------
(***************************************************************************)
(* C13, hook tier: sequences of events observed at the linearization       *)
(* points of the real Run (the verif hooks, the caller's cancel(), the     *)
(* opcode fetch that begins a Step, Run's return) are validated against    *)
(* the goroutine model RunCancel.  Unlogged atomic steps (the runner's     *)
(* flag load that sees 0, the end of a Step, the stop tests, the deferred  *)
(* cancel, the watcher's exit) are silent steps of the trace               *)
(* specification; a trace is accepted when SOME interleaving of silent     *)
(* steps explains the whole log.  Several runs are concatenated with a     *)
(* "reset" event.                                                           *)
(*                                                                          *)
(* Acceptance is signalled by violating the "invariant" NotAccepted (TLC   *)
(* stops at the first state in which every line has been consumed).        *)
(***************************************************************************)
EXTENDS RunCancel, Json, IOUtils, Sequences

TraceLog == ndJsonDeserialize(IOEnv.TRACE)
VARIABLE l
tvars == <<vars, l>>
Ev == TraceLog[l]
IsEv(e) == l <= Len(TraceLog) /\ Ev.ev = e /\ l' = l + 1
Silent == UNCHANGED l

TInit == Init /\ l = 1

\* logged events
TCancel == IsEv("cancel") /\ c1 /\ parentDone'
TNoCancel == Silent /\ c1 /\ ~parentDone'                 \* the caller decides never to cancel (unlogged)
TWoken == IsEv("watcher-woken") /\ w1
TWrote == IsEv("watcher-wrote") /\ w2
TStored == IsEv("watcher-stored") /\ w3
TStepBegin == IsEv("step-begin") /\ r3
TSawCancel == IsEv("runner-saw-cancel") /\ canceled # 0 /\ r1
TReturned == /\ IsEv("returned") /\ rend
             /\ CASE Ev.err = "ctx" -> ret = "ctx-error"
                  [] Ev.err = "nil" -> ret = "nil-halt"
                  [] Ev.err = "bp"  -> ret = "breakpoint"
                  [] OTHER -> FALSE
\* unlogged atomic steps
TSilent == Silent /\ ((canceled = 0 /\ r1) \/ r4 \/ r5 \/ r6 \/ r2 \/ rdefer \/ w4)
\* next run: everything back to the initial state
TReset == /\ IsEv("reset") /\ returned /\ watcherDone          \* the run is over and the watcher has exited (no leak)
          /\ pc' = [self \in ProcSet |-> CASE self = "caller" -> "c1" [] self = "watcher" -> "w1" [] self = "runner" -> "r1"]
          /\ parentDone' = FALSE /\ ctx2Done' = FALSE /\ ctxErr' = "unset" /\ canceled' = 0 /\ steps' = 0
          /\ inStep' = FALSE /\ ret' = "none" /\ returned' = FALSE /\ stepsAfterStore' = 0 /\ watcherDone' = FALSE

TNext == TCancel \/ TNoCancel \/ TWoken \/ TWrote \/ TStored \/ TStepBegin \/ TSawCancel \/ TReturned \/ TSilent \/ TReset
TSpec == TInit /\ [][TNext]_tvars

NotAccepted == l <= Len(TraceLog)
\* the safety properties of the model hold along every explanation of the trace
TraceSafe == ReadsAfterWrite /\ ErrImpliesCancelled /\ ReturnsAtBoundary /\ Prompt /\ NoSpuriousError
=============================================================================
