--------------------------- MODULE RunCancelTrace ---------------------------
(***************************************************************************)
(* C13, hook tier: sequences of events observed at the linearization       *)
(* points of the real Run (the verif hooks, the caller's cancel(), the     *)
(* opcode fetch that begins a Step, Run's return) are validated against    *)
(* the goroutine model RunCancel.  The model's atomic steps are silent     *)
(* steps of the trace specification and the logged events constrain the    *)
(* control state of their process; a trace is accepted when SOME           *)
(* interleaving explains the whole log.  Several runs are concatenated with a     *)
(* "reset" event.                                                           *)
(*                                                                          *)
(* Acceptance is signalled by violating the "invariant" NotAccepted (TLC   *)
(* stops at the first state in which every line has been consumed).        *)
(***************************************************************************)
EXTENDS RunCancel, Json, IOUtils, Sequences

TraceLog == ndJsonDeserialize(IOEnv.TRACE)
VARIABLE l
tvars == <<vars, l>>
Ev == TraceLog[l]
IsEv(e) == l <= Len(TraceLog) /\ Ev.ev = e /\ l' = l + 1
Silent == UNCHANGED l

TInit == Init /\ l = 1

\* A hook is called AFTER the atomic step it reports and before the next atomic step of the same
\* goroutine, so a logged event is an observation "this process stands between X and its next
\* step" - not the step itself: another goroutine may already have reacted to X when the event
\* is recorded (e.g. the runner sees the flag and logs runner-saw-cancel before the watcher logs
\* watcher-stored).  Every atomic step of the model is therefore silent, and an event only
\* constrains the control state of its process.
Obs(e, proc, at) == IsEv(e) /\ pc[proc] = at /\ UNCHANGED vars
\* the caller logs "cancel" and then calls cancel(): treating the call as simultaneous with the
\* log only allows more behaviours (nothing can react before the real call)
TCancel == IsEv("cancel") /\ c1 /\ parentDone'
TNoCancel == Silent /\ c1 /\ ~parentDone'                 \* the caller decides never to cancel (unlogged)
TWoken == Obs("watcher-woken", "watcher", "w2")
TWrote == Obs("watcher-wrote", "watcher", "w3")
TStored == Obs("watcher-stored", "watcher", "w4")
TStepBegin == Obs("step-begin", "runner", "r4")          \* recorded by the first bus access inside the Step
TSawCancel == Obs("runner-saw-cancel", "runner", "r2")
TReturned == /\ Obs("returned", "runner", "Done")
             /\ CASE Ev.err = "ctx" -> ret = "ctx-error"
                  [] Ev.err = "nil" -> ret = "nil-halt"
                  [] Ev.err = "bp"  -> ret = "breakpoint"
                  [] OTHER -> FALSE
\* the atomic steps themselves
TSilent == Silent /\ (w1 \/ w2 \/ w3 \/ w4 \/ r1 \/ r2 \/ r3 \/ r4 \/ r5 \/ r6 \/ rdefer \/ rend)
\* next run: everything back to the initial state
TReset == /\ IsEv("reset") /\ returned /\ watcherDone          \* the run is over and the watcher has exited (no leak)
          /\ pc' = [self \in ProcSet |-> CASE self = "caller" -> "c1" [] self = "watcher" -> "w1" [] self = "runner" -> "r1"]
          /\ parentDone' = FALSE /\ ctx2Done' = FALSE /\ ctxErr' = "unset" /\ canceled' = 0 /\ steps' = 0
          /\ inStep' = FALSE /\ ret' = "none" /\ returned' = FALSE /\ stepsAfterStore' = 0 /\ watcherDone' = FALSE

TNext == TCancel \/ TNoCancel \/ TWoken \/ TWrote \/ TStored \/ TStepBegin \/ TSawCancel \/ TReturned \/ TSilent \/ TReset
TSpec == TInit /\ [][TNext]_tvars

NotAccepted == l <= Len(TraceLog)
\* the safety properties of the model hold along every explanation of the trace
TraceSafe == ReadsAfterWrite /\ ErrImpliesCancelled /\ ReturnsAtBoundary /\ Prompt /\ NoSpuriousError
=============================================================================
