----------------------------- MODULE RunCancel -----------------------------
(***************************************************************************)
(* C13: the cancellation hand-off of CPU.Run at goroutine granularity.     *)
(* One label per atomic step of cpu.go Run():                              *)
(*                                                                          *)
(*   ctx2, cancel := context.WithCancel(ctx); defer cancel()               *)
(*   go func() { <-ctx2.Done(); ctxErr = ctx.Err(); atomic.Store(&canceled,1) }() *)
(*   for { if atomic.Load(&canceled) != 0 { return ctxErr }                *)
(*         cpu.Step(); if breakpoint { return ErrBreakPoint }              *)
(*         if cpu.HALT { break } }; return nil                             *)
(*                                                                          *)
(* Processes: Caller (cancels the parent context at an arbitrary moment,   *)
(* or never), Watcher (the goroutine), Runner (the loop).  The program is  *)
(* abstract: it halts after HaltAt Steps (0 = never, a tight loop) and     *)
(* hits a breakpoint after BpAt Steps (0 = never).   DeferCancel = FALSE   *)
(* models Run without the deferred cancel() (the leak must then be found:  *)
(* non-vacuity of NoLeak).                                                  *)
(***************************************************************************)
EXTENDS Integers, TLC

CONSTANTS HaltAt, BpAt, DeferCancel, MaxSteps

(* --algorithm RunCancel {
  variables parentDone = FALSE,     \* the context given to Run is done (cancelled / deadline)
            ctx2Done = FALSE,       \* the derived context's Done channel is closed
            ctxErr = "unset",       \* the plain variable the watcher writes and the runner reads
            canceled = 0,           \* the atomic flag
            steps = 0,              \* whole Steps executed (saturating)
            inStep = FALSE,         \* a Step is in progress
            ret = "none",           \* what Run returned
            returned = FALSE,
            stepsAfterStore = 0,    \* Steps STARTED after the flag store became visible
            watcherDone = FALSE;

  fair process (Caller = "caller") {
    c1: either { parentDone := TRUE; ctx2Done := TRUE }   \* cancel / deadline: closes both Done channels
        or skip;                                          \* never cancelled
  }

  fair process (Watcher = "watcher") {
    w1: await ctx2Done;                                   \* <-ctx2.Done()
    w2: ctxErr := IF parentDone THEN "ctx-error" ELSE "nil";   \* ctxErr = ctx.Err()
    w3: canceled := 1;                                    \* atomic.StoreInt32(&canceled, 1)
    w4: watcherDone := TRUE;
  }

  fair process (Runner = "runner") {
    r1: while (TRUE) {
          if (canceled # 0) {                             \* atomic.LoadInt32(&canceled)
    r2:     ret := ctxErr;                                \* return ctxErr (plain read)
            goto rdefer;
          };
    r3:   inStep := TRUE;                                 \* cpu.Step() begins ...
          if (canceled # 0) { stepsAfterStore := stepsAfterStore + 1 };
    r4:   inStep := FALSE;                                \* ... and ends: a whole Step
          steps := IF steps < MaxSteps THEN steps + 1 ELSE steps;
    r5:   if (BpAt > 0 /\ steps = BpAt) { ret := "breakpoint"; goto rdefer };
    r6:   if (HaltAt > 0 /\ steps = HaltAt) { ret := "nil-halt"; goto rdefer };
        };
    rdefer: if (DeferCancel) { ctx2Done := TRUE };         \* deferred cancel()
    rend: returned := TRUE;
  }
} *)
\* BEGIN TRANSLATION
VARIABLES pc, parentDone, ctx2Done, ctxErr, canceled, steps, inStep, ret, 
          returned, stepsAfterStore, watcherDone

vars == << pc, parentDone, ctx2Done, ctxErr, canceled, steps, inStep, ret, 
           returned, stepsAfterStore, watcherDone >>

ProcSet == {"caller"} \cup {"watcher"} \cup {"runner"}

Init == (* Global variables *)
        /\ parentDone = FALSE
        /\ ctx2Done = FALSE
        /\ ctxErr = "unset"
        /\ canceled = 0
        /\ steps = 0
        /\ inStep = FALSE
        /\ ret = "none"
        /\ returned = FALSE
        /\ stepsAfterStore = 0
        /\ watcherDone = FALSE
        /\ pc = [self \in ProcSet |-> CASE self = "caller" -> "c1"
                                        [] self = "watcher" -> "w1"
                                        [] self = "runner" -> "r1"]

c1 == /\ pc["caller"] = "c1"
      /\ \/ /\ parentDone' = TRUE
            /\ ctx2Done' = TRUE
         \/ /\ TRUE
            /\ UNCHANGED <<parentDone, ctx2Done>>
      /\ pc' = [pc EXCEPT !["caller"] = "Done"]
      /\ UNCHANGED << ctxErr, canceled, steps, inStep, ret, returned, 
                      stepsAfterStore, watcherDone >>

Caller == c1

w1 == /\ pc["watcher"] = "w1"
      /\ ctx2Done
      /\ pc' = [pc EXCEPT !["watcher"] = "w2"]
      /\ UNCHANGED << parentDone, ctx2Done, ctxErr, canceled, steps, inStep, 
                      ret, returned, stepsAfterStore, watcherDone >>

w2 == /\ pc["watcher"] = "w2"
      /\ ctxErr' = IF parentDone THEN "ctx-error" ELSE "nil"
      /\ pc' = [pc EXCEPT !["watcher"] = "w3"]
      /\ UNCHANGED << parentDone, ctx2Done, canceled, steps, inStep, ret, 
                      returned, stepsAfterStore, watcherDone >>

w3 == /\ pc["watcher"] = "w3"
      /\ canceled' = 1
      /\ pc' = [pc EXCEPT !["watcher"] = "w4"]
      /\ UNCHANGED << parentDone, ctx2Done, ctxErr, steps, inStep, ret, 
                      returned, stepsAfterStore, watcherDone >>

w4 == /\ pc["watcher"] = "w4"
      /\ watcherDone' = TRUE
      /\ pc' = [pc EXCEPT !["watcher"] = "Done"]
      /\ UNCHANGED << parentDone, ctx2Done, ctxErr, canceled, steps, inStep, 
                      ret, returned, stepsAfterStore >>

Watcher == w1 \/ w2 \/ w3 \/ w4

r1 == /\ pc["runner"] = "r1"
      /\ IF canceled # 0
            THEN /\ pc' = [pc EXCEPT !["runner"] = "r2"]
            ELSE /\ pc' = [pc EXCEPT !["runner"] = "r3"]
      /\ UNCHANGED << parentDone, ctx2Done, ctxErr, canceled, steps, inStep, 
                      ret, returned, stepsAfterStore, watcherDone >>

r3 == /\ pc["runner"] = "r3"
      /\ inStep' = TRUE
      /\ IF canceled # 0
            THEN /\ stepsAfterStore' = stepsAfterStore + 1
            ELSE /\ TRUE
                 /\ UNCHANGED stepsAfterStore
      /\ pc' = [pc EXCEPT !["runner"] = "r4"]
      /\ UNCHANGED << parentDone, ctx2Done, ctxErr, canceled, steps, ret, 
                      returned, watcherDone >>

r4 == /\ pc["runner"] = "r4"
      /\ inStep' = FALSE
      /\ steps' = (IF steps < MaxSteps THEN steps + 1 ELSE steps)
      /\ pc' = [pc EXCEPT !["runner"] = "r5"]
      /\ UNCHANGED << parentDone, ctx2Done, ctxErr, canceled, ret, returned, 
                      stepsAfterStore, watcherDone >>

r5 == /\ pc["runner"] = "r5"
      /\ IF BpAt > 0 /\ steps = BpAt
            THEN /\ ret' = "breakpoint"
                 /\ pc' = [pc EXCEPT !["runner"] = "rdefer"]
            ELSE /\ pc' = [pc EXCEPT !["runner"] = "r6"]
                 /\ ret' = ret
      /\ UNCHANGED << parentDone, ctx2Done, ctxErr, canceled, steps, inStep, 
                      returned, stepsAfterStore, watcherDone >>

r6 == /\ pc["runner"] = "r6"
      /\ IF HaltAt > 0 /\ steps = HaltAt
            THEN /\ ret' = "nil-halt"
                 /\ pc' = [pc EXCEPT !["runner"] = "rdefer"]
            ELSE /\ pc' = [pc EXCEPT !["runner"] = "r1"]
                 /\ ret' = ret
      /\ UNCHANGED << parentDone, ctx2Done, ctxErr, canceled, steps, inStep, 
                      returned, stepsAfterStore, watcherDone >>

r2 == /\ pc["runner"] = "r2"
      /\ ret' = ctxErr
      /\ pc' = [pc EXCEPT !["runner"] = "rdefer"]
      /\ UNCHANGED << parentDone, ctx2Done, ctxErr, canceled, steps, inStep, 
                      returned, stepsAfterStore, watcherDone >>

rdefer == /\ pc["runner"] = "rdefer"
          /\ IF DeferCancel
                THEN /\ ctx2Done' = TRUE
                ELSE /\ TRUE
                     /\ UNCHANGED ctx2Done
          /\ pc' = [pc EXCEPT !["runner"] = "rend"]
          /\ UNCHANGED << parentDone, ctxErr, canceled, steps, inStep, ret, 
                          returned, stepsAfterStore, watcherDone >>

rend == /\ pc["runner"] = "rend"
        /\ returned' = TRUE
        /\ pc' = [pc EXCEPT !["runner"] = "Done"]
        /\ UNCHANGED << parentDone, ctx2Done, ctxErr, canceled, steps, inStep, 
                        ret, stepsAfterStore, watcherDone >>

Runner == r1 \/ r3 \/ r4 \/ r5 \/ r6 \/ r2 \/ rdefer \/ rend

(* Allow infinite stuttering to prevent deadlock on termination. *)
Terminating == /\ \A self \in ProcSet: pc[self] = "Done"
               /\ UNCHANGED vars

Next == Caller \/ Watcher \/ Runner
           \/ Terminating

Spec == /\ Init /\ [][Next]_vars
        /\ WF_vars(Caller)
        /\ WF_vars(Watcher)
        /\ WF_vars(Runner)

Termination == <>(\A self \in ProcSet: pc[self] = "Done")

\* END TRANSLATION

----------------------------------------------------------------------------
(* safety *)
\* the runner reads ctxErr only after the watcher wrote it (the atomic store/load pair
\* orders the plain write before the plain read: protocol-level race freedom)
ReadsAfterWrite == pc["runner"] = "r2" => ctxErr # "unset"
\* a returned context error implies the parent context was done; Run never returns the
\* "nil" the watcher writes when only the deferred cancel fired
ErrImpliesCancelled == /\ (ret = "ctx-error" => parentDone)
                       /\ ret \notin {"nil", "unset"}
\* Run returns only between Steps
ReturnsAtBoundary == (pc["runner"] \in {"rdefer", "rend", "Done"}) => ~inStep
\* at most the Step in progress completes once the cancellation flag is visible
Prompt == stepsAfterStore <= 1
\* without cancellation Run never reports a context error
\* when both hold after a Step the breakpoint wins
BpWins == ret = "nil-halt" => ~(BpAt > 0 /\ steps = BpAt)
NoSpuriousError == ~parentDone => ret # "ctx-error"
TypeOK == /\ ctxErr \in {"unset", "ctx-error", "nil"} /\ canceled \in {0, 1}
          /\ ret \in {"none", "ctx-error", "nil", "unset", "breakpoint", "nil-halt"}

(* liveness (weak fairness of every process) *)
CancelLeadsToReturn == parentDone ~> returned
NoLeak == returned ~> watcherDone
Terminates == (HaltAt > 0 \/ BpAt > 0) => <>returned
=============================================================================
