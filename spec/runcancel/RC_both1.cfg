SPECIFICATION Spec
CONSTANTS
  HaltAt = 1
  BpAt = 1
  DeferCancel = TRUE
  MaxSteps = 4
INVARIANTS TypeOK ReadsAfterWrite ErrImpliesCancelled ReturnsAtBoundary Prompt NoSpuriousError BpWins
PROPERTIES CancelLeadsToReturn NoLeak Terminates
CHECK_DEADLOCK FALSE
