SPECIFICATION TSpec
CONSTANTS
  HaltAt = 3
  BpAt = 0
  DeferCancel = TRUE
  MaxSteps = 4
INVARIANTS NotAccepted TraceSafe
CHECK_DEADLOCK FALSE
