------------------------------ MODULE Z80Block ------------------------------
(***************************************************************************)
(* C09: the repeating block instructions as WHOLE operations - a direct    *)
(* functional specification (closed form) of what running LDIR/LDDR/CPIR/  *)
(* CPDR/INIR/INDR/OTIR/OTDR to completion does, independent of the         *)
(* per-Step semantics in Z80Core.  MC_Block checks with TLC that iterating *)
(* Step until PC leaves the instruction equals the closed form; the trace  *)
(* specification checks whole runs recorded from the real code (up to      *)
(* 65,536 Steps) against it.                                               *)
(*                                                                           *)
(* Not applicable when the operation changes its own two opcode bytes      *)
(* (then only the per-Step semantics is defined): Applicable(c).           *)
(***************************************************************************)
EXTENDS Z80Int

BlockKind(c) ==    \* the ED-prefixed repeating block instruction at PC, or "none"
  IF Peek(c, c.r.PC) # 237 THEN "none"
  ELSE LET op == Peek(c, W(c.r.PC + 1))
       IN CASE op = 176 -> "LDIR" [] op = 184 -> "LDDR" [] op = 177 -> "CPIR" [] op = 185 -> "CPDR"
            [] op = 178 -> "INIR" [] op = 186 -> "INDR" [] op = 179 -> "OTIR" [] op = 187 -> "OTDR"
            [] OTHER -> "none"

Dir(k) == IF k \in {"LDIR", "CPIR", "INIR", "OTIR"} THEN 1 ELSE -1
BC(c) == Mk16(c.r.B, c.r.C)
HL(c) == Mk16(c.r.H, c.r.L)
DE(c) == Mk16(c.r.D, c.r.E)
Count16(c) == IF BC(c) = 0 THEN 65536 ELSE BC(c)
Count8(c) == IF c.r.B = 0 THEN 256 ELSE c.r.B

\* LDIR / LDDR -------------------------------------------------------------
\* byte copied at repetition i (0-based): with distance k between destination and source
\* inside the range, the data propagates with period k (as on hardware)
LdSrc(c, dir, n, i) ==
  LET k == W(dir * (DE(c) - HL(c)))          \* how far the destination runs ahead of the source
  IN IF k >= 1 /\ k <= n - 1 THEN W(HL(c) + dir * (i % k)) ELSE W(HL(c) + dir * i)
LdWritten(c, dir, n) == {W(DE(c) + dir * i) : i \in 0 .. (n - 1)}
LdFinalAt(c, dir, n, a) ==                   \* final content of a written address a
  LET i == W(dir * (a - DE(c)))              \* its (last) repetition index: n <= 65536 so unique
  IN Peek(c, LdSrc(c, dir, n, i))
LdWhole(c, dir) ==
  LET n == Count16(c)
      last == Peek(c, LdSrc(c, dir, n, n - 1))
      fl == LdiFlags(c.r.A, last, 0, c.r.F)
  IN [steps |-> n, hl |-> W(HL(c) + dir * n), de |-> W(DE(c) + dir * n), bc |-> 0, b |-> 0,
      f |-> fl.f, u |-> fl.u, a |-> c.r.A, pc |-> W(c.r.PC + 2),
      written |-> LdWritten(c, dir, n), pio |-> <<>>]

\* CPIR / CPDR -------------------------------------------------------------
CpWhole(c, dir) ==
  LET n == Count16(c)
      hit == {i \in 0 .. (n - 1) : Peek(c, W(HL(c) + dir * i)) = c.r.A}
      stop == IF hit = {} THEN n - 1 ELSE CHOOSE i \in hit : \A j \in hit : i <= j
      steps == stop + 1
      bc1 == W(BC(c) - steps)
      fl == CpiFlags(c.r.A, Peek(c, W(HL(c) + dir * stop)), bc1, c.r.F)
  IN [steps |-> steps, hl |-> W(HL(c) + dir * steps), de |-> DE(c), bc |-> bc1, b |-> HiB(bc1),
      f |-> fl.f, u |-> fl.u, a |-> c.r.A, pc |-> W(c.r.PC + 2), written |-> {}, pio |-> <<>>]

\* INIR / INDR / OTIR / OTDR  (port C; B bytes, 256 when B = 0) --------------
IoWhole(c, dir, isIn) ==
  LET n == Count8(c)
      port == c.r.C
      seq == [i \in 1 .. n |->
                IF isIn THEN <<0, port, IoHash(c.io.seed, port, c.nin + i - 1)>>
                ELSE <<1, port, Peek(c, W(HL(c) + dir * (i - 1)))>>]
      last == seq[n][3]
      hl1 == W(HL(c) + dir * n)
      fl == IoBlockFlags(0, last, IF isIn THEN (c.r.C + dir) % 256 ELSE LoB(hl1), c.r.F)
  IN [steps |-> n, hl |-> hl1, de |-> DE(c), bc |-> c.r.C, b |-> 0,
      f |-> fl.f, u |-> fl.u, a |-> c.r.A, pc |-> W(c.r.PC + 2),
      written |-> IF isIn THEN {W(HL(c) + dir * i) : i \in 0 .. (n - 1)} ELSE {}, pio |-> seq]
\* INIR: content of written address a = the byte of its last repetition
InFinalAt(c, dir, n, a) == IoHash(c.io.seed, c.r.C, c.nin + W(dir * (a - HL(c))))

Whole(c) ==
  LET k == BlockKind(c)
  IN CASE k \in {"LDIR", "LDDR"} -> LdWhole(c, Dir(k))
       [] k \in {"CPIR", "CPDR"} -> CpWhole(c, Dir(k))
       [] k \in {"INIR", "INDR"} -> IoWhole(c, Dir(k), TRUE)
       [] k \in {"OTIR", "OTDR"} -> IoWhole(c, Dir(k), FALSE)

FinalAt(c, a) ==
  LET k == BlockKind(c)
  IN IF k \in {"LDIR", "LDDR"} THEN LdFinalAt(c, Dir(k), Count16(c), a)
     ELSE InFinalAt(c, Dir(k), Count8(c), a)

\* the closed form applies when the operation does not overwrite its own opcode bytes,
\* the port device answers by IoHash (or no port is involved), and memory is full size
Applicable(c) ==
  /\ BlockKind(c) # "none" /\ c.dev.len = 65536 /\ c.pend.t = "none"
  /\ (BlockKind(c) \in {"INIR", "INDR", "OTIR", "OTDR"} => c.io.ik = "hash")
  \* an opcode byte may be overwritten only with its own value (each address is written once)
  /\ \A a \in Whole(c).written \cap {c.r.PC, W(c.r.PC + 1)} : FinalAt(c, a) = Peek(c, a)
=============================================================================
