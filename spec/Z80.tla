--------------------------------- MODULE Z80 ---------------------------------
(***************************************************************************)
(* The emulator as a state machine: the CPU/bus context c and what the      *)
(* environment can do to it.                                                *)
(*   FeedStep(code) : the environment places an instruction at PC (this     *)
(*                    quantifies over programs without enumerating          *)
(*                    memories) and one Step is taken                        *)
(*   Raise(req)     : a device stores a request in CPU.Interrupt            *)
(*   Poke(cells)    : the environment writes memory                         *)
(*   Snapshot       : the CPU object is rebuilt from copies (a stutter)     *)
(*   Fork           : the CPU struct is copied by value and the run goes on *)
(*                    with the copy (a stutter: nothing but the struct's    *)
(*                    fields is state)                                       *)
(*   SwapMemory     : CPU.Memory is replaced by another object with the     *)
(*                    same contents (a stutter: nothing is cached)          *)
(*   LoadRegs(r)    : the host loads the registers (next program on the     *)
(*                    same CPU); the halted indication stays                *)
(*   RunCall(bp)    : one CPU.Run call (Z80Run)                              *)
(* The trace specification has one event per action (s f q p snap fork      *)
(* swapmem regs r); the stutters are where hidden state shows up: the       *)
(* implementation does something, the specification nothing.                *)
(* Bounded configurations live in mc/MC_*.tla; the trace specification      *)
(* (Z80Trace) reuses the same operators to validate recorded executions.    *)
(***************************************************************************)
EXTENDS Z80Run

VARIABLE c

\* what persists between Steps: the per-Step observation fields are cleared
Settle(o) == [o EXCEPT !.rd = <<>>, !.wr = <<>>, !.pio = <<>>, !.v = 0, !.u = 0, !.ralt = FALSE, !.rslack = 0]

PlaceAtPC(x, code) ==
  [x EXCEPT !.m = [a \in {W(x.r.PC + i - 1) : i \in 1 .. Len(code)} |->
                     code[CHOOSE i \in 1 .. Len(code) : W(x.r.PC + i - 1) = a]] @@ @]

Step == \E o \in StepSet(c) : c' = Settle(o)
FeedStep(code) == \E o \in StepSet(PlaceAtPC(c, code)) : c' = Settle(o)
Raise(req) == c' = [c EXCEPT !.pend = req]
Poke(cells) == c' = [c EXCEPT !.m = cells @@ @]
Snapshot == UNCHANGED c
Fork == UNCHANGED c
SwapMemory == UNCHANGED c
LoadRegs(r) == c' = [c EXCEPT !.r = r]
RunCall(bp) == \E x \in RunResults(c, bp, NoSched, 2000).done : c' = Settle(x.c)
=============================================================================
