--------------------------------- MODULE Z80 ---------------------------------
(***************************************************************************)
(* The emulator as a state machine: the CPU/bus context c and what the      *)
(* environment can do to it.                                                *)
(*   FeedStep(code) : the environment places an instruction at PC (this     *)
(*                    quantifies over programs without enumerating          *)
(*                    memories) and one Step is taken                        *)
(*   Raise(req)     : a device stores a request in CPU.Interrupt            *)
(*   Poke(cells)    : the environment writes memory                         *)
(*   Snapshot       : the CPU object is rebuilt from copies (a stutter)     *)
(*   RunCall(bp)    : one CPU.Run call (Z80Run)                              *)
(* Bounded configurations live in mc/MC_*.tla; the trace specification      *)
(* (Z80Trace) reuses the same operators to validate recorded executions.    *)
(***************************************************************************)
EXTENDS Z80Run

VARIABLE c

\* what persists between Steps: the per-Step observation fields are cleared
Settle(o) == [o EXCEPT !.rd = <<>>, !.wr = <<>>, !.pio = <<>>, !.v = 0, !.u = 0, !.ralt = FALSE, !.rslack = 0]

PlaceAtPC(x, code) ==
  [x EXCEPT !.m = [a \in {W(x.r.PC + i - 1) : i \in 1 .. Len(code)} |->
                     code[CHOOSE i \in 1 .. Len(code) : W(x.r.PC + i - 1) = a]] @@ @]

Step == \E o \in StepSet(c) : c' = Settle(o)
FeedStep(code) == \E o \in StepSet(PlaceAtPC(c, code)) : c' = Settle(o)
Raise(req) == c' = [c EXCEPT !.pend = req]
Poke(cells) == c' = [c EXCEPT !.m = cells @@ @]
Snapshot == UNCHANGED c
RunCall(bp) == \E x \in RunResults(c, bp, NoSched, 2000).done : c' = Settle(x.c)
=============================================================================
