------------------------------- MODULE Z80Run -------------------------------
(***************************************************************************)
(* CPU.Run as repeated Step with the stop rule (C08), and what cancellation *)
(* may leave behind (C13).                                                  *)
(*                                                                           *)
(* A run state x carries the CPU context x.c plus accumulators over the     *)
(* Steps of the run: x.pio (port log), x.n (bus accesses so far), x.rs      *)
(* (how many R counts are optional), x.steps, and x.sched - a request that  *)
(* a device callback will store in CPU.Interrupt at its at-th bus access.   *)
(*                                                                           *)
(* Stop rule: after a Step, if PC is a member of BreakPoints the run ends   *)
(* with ErrBreakPoint; otherwise if a HALT was executed it ends with nil;   *)
(* the breakpoint wins; at least one Step is always executed; a stale       *)
(* halted indication is discarded on entry.                                 *)
(***************************************************************************)
EXTENDS Z80Int, FiniteSets

NoSched == [at |-> 0]

Accepting(c, o) == c.pend.t # "none" /\ o.pend.t = "none"

\* the Steps possible from run state x
StepAcc(x) ==
  UNION {
    LET n2 == x.n + Len(o.rd) + Len(o.wr) + Len(o.pio)
        fires == x.sched.at > 0 /\ x.n < x.sched.at /\ x.sched.at <= n2
        \* A request stored while the Step that accepts another request is in progress: today it is
        \* overwritten when that Step retires its own request; no listed property speaks about it, so an
        \* implementation that keeps it is allowed as well (both outcomes).
        kept == [o EXCEPT !.pend = x.sched.pend]
        c2s == IF ~fires THEN {o} ELSE IF Accepting(x.c, o) THEN {o, kept} ELSE {kept}
        \* a callback may assign a new BreakPoints map at its at-th bus access: Run tests the map
        \* that is current after the Step
        swaps == x.bpswap.at > 0 /\ x.n < x.bpswap.at /\ x.bpswap.at <= n2
    IN { [c |-> c2, pio |-> x.pio \o o.pio, n |-> n2,
          rs |-> x.rs + o.rslack + (IF o.ralt THEN 1 ELSE 0),
          steps |-> x.steps + 1, sched |-> IF fires THEN NoSched ELSE x.sched,
          bp |-> IF swaps THEN x.bpswap.set ELSE x.bp,
          bpswap |-> IF swaps THEN [at |-> 0] ELSE x.bpswap] : c2 \in c2s }
    : o \in StepSet(x.c) }

\* (bp is the set given at the call; it is kept in the run state, where a callback may replace it)
Stops(x, bp) == IF x.c.r.PC \in x.bp THEN "bp" ELSE IF x.c.halt THEN "nil" ELSE "no"

RunStartB(c, sched, bp, bpswap) ==
  [c |-> [c EXCEPT !.halt = FALSE], pio |-> <<>>, n |-> 0, rs |-> 0, steps |-> 0, sched |-> sched, bp |-> bp, bpswap |-> bpswap]
RunStart(c, sched) == RunStartB(c, sched, {}, [at |-> 0])

\* declarative result: the run states after the first n >= 1 Steps such that the stop
\* rule holds (a set, because StepSet is a set); live = still running when fuel ran out
RECURSIVE RunLoop(_, _, _, _)
RunLoop(S, bp, fuel, D) ==
  IF S = {} \/ fuel = 0 THEN [done |-> D, live |-> S]
  ELSE LET nx == UNION {StepAcc(x) : x \in S}
           fin == {x \in nx : Stops(x, bp) # "no"}
       IN RunLoop(nx \ fin, bp, fuel - 1, D \cup fin)
RunResults(c, bp, sched, fuel) == RunLoop({RunStartB(c, sched, bp, [at |-> 0])}, bp, fuel, {})

\* cancellation: Run may return the context's error at any Step boundary before the
\* stop rule held; the harness reports the number of bus accesses, which identifies
\* the boundary.  Boundaries(c, ..., nacc) = run states at a boundary with x.n = nacc.
RECURSIVE CancelLoop(_, _, _, _)
CancelLoop(S, bp, nacc, fuel) ==
  LET hit == {x \in S : x.n = nacc}
      go == {x \in S : x.n < nacc}
  IN IF go = {} \/ fuel = 0 THEN hit
     ELSE LET nx == UNION {StepAcc(x) : x \in go}
          IN hit \cup CancelLoop({x \in nx : Stops(x, bp) = "no"}, bp, nacc, fuel - 1)
Boundaries(c, bp, sched, nacc, fuel) == CancelLoop({RunStartB(c, sched, bp, [at |-> 0])}, bp, nacc, fuel)

\* C07: two final states are related when registers (minus R), flags, IFF state, mode and the
\* halted indication coincide and memory coincides outside the stack bytes below SP
StackDepth == 64
BelowSP(x, a) == W(x.r.SP - a) \in 1 .. StackDepth
Transparent(a, b) ==
  /\ \A n \in DOMAIN a.r : n = "R" \/ a.r[n] = b.r[n]
  /\ a.halt = b.halt
  /\ \A x \in DOMAIN a.m \cup DOMAIN b.m : BelowSP(a, x) \/ Peek(a, x) = Peek(b, x)

RunRAllowed(x) == { IncR(x.c.r.R, 128 - j) : j \in 0 .. (IF x.rs > 127 THEN 127 ELSE x.rs) }
=============================================================================
