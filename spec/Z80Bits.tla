------------------------------ MODULE Z80Bits ------------------------------
(***************************************************************************)
(* Bytes, words, flag masks and the handful of bit-level helpers the rest  *)
(* of the Z80 specification is written with.  Everything is plain integer  *)
(* arithmetic (\div, %) so the meaning is the textbook one; Bitwise (Java-  *)
(* overridden in TLC) is only used for AND/OR/XOR of bytes.                *)
(***************************************************************************)
EXTENDS Integers, Sequences, Bitwise

Byte == 0 .. 255
Word == 0 .. 65535

\* flag masks (bit positions of F)
FC  == 1
FN  == 2
FPV == 4
F3  == 8
FH  == 16
F5  == 32
FZ  == 64
FS  == 128

Pow2 == <<1, 2, 4, 8, 16, 32, 64, 128, 256, 512, 1024, 2048, 4096, 8192, 16384, 32768, 65536>>
P2(n) == Pow2[n + 1]

W(x)  == x % 65536          \* 16-bit wrap (TLA+ % is the mathematical modulus: W(-1) = 65535)
B8(x) == x % 256            \* 8-bit wrap
BitOf(x, n) == (x \div P2(n)) % 2
HiB(w) == (w \div 256) % 256
LoB(w) == w % 256
Mk16(h, l) == h * 256 + l
SExt(d) == IF d >= 128 THEN d - 256 ELSE d      \* signed meaning of a displacement byte

Ones(x) == BitOf(x,0) + BitOf(x,1) + BitOf(x,2) + BitOf(x,3)
         + BitOf(x,4) + BitOf(x,5) + BitOf(x,6) + BitOf(x,7)
ParityEven(x) == Ones(x) % 2 = 0

IfF(b, m) == IF b THEN m ELSE 0
Neg7(x) == x >= 128                               \* sign of a byte
SZ(r)  == IfF(r >= 128, FS) + IfF(r = 0, FZ)      \* S and Z of a byte result
X53(r) == BitOf(r, 5) * 32 + BitOf(r, 3) * 8      \* bits 5 and 3 copied from r
Keep(f, mask) == f & mask                         \* the bits of f selected by mask

\* multiset equality of two sequences (bus accesses are compared as multisets)
Count(s, e) == LET RECURSIVE cnt(_)
                   cnt(i) == IF i = 0 THEN 0 ELSE cnt(i-1) + (IF s[i] = e THEN 1 ELSE 0)
               IN cnt(Len(s))
Range(s) == {s[i] : i \in 1 .. Len(s)}
SameBag(s, t) == /\ Len(s) = Len(t)
                 /\ \A e \in Range(s) \cup Range(t) : Count(s, e) = Count(t, e)
=============================================================================
