----------------------------- MODULE Gen_Tables -----------------------------
(***************************************************************************)
(* Mechanism X: TLC tabulates the operators of Z80Alu over their COMPLETE   *)
(* domains and writes one JSON file per table.  The Go sweep then drives   *)
(* the real CPU.Step over the complete input cube of every opcode encoding  *)
(* of the operator and looks each result up here.                           *)
(*                                                                           *)
(* A table is keyed by the operator's arguments and by the incoming flag    *)
(* bits it READS (rbits).  Flag bits it KEEPS without reading them are      *)
(* merged from the incoming F by the rule                                    *)
(*      F' = (entry.f minus keep) + Keep(F, keep)                            *)
(* which TLC checks against the operator for all 256 F (MergeLaw below), so *)
(* the rule is a theorem of the specification, not harness logic.           *)
(*                                                                           *)
(* entry = v * 256 + f (v may be 16 bits wide for RLD/RRD: a' * 256 + m').  *)
(* index = (args in row-major order) * 2^|rbits| + compressed read bits.    *)
(***************************************************************************)
EXTENDS Z80Alu, Flags, TLC, Json, IOUtils

OutDir == IOEnv.OUTDIR
Part == IOEnv.PART

\* the F value whose read bits are the binary digits of i
FinOf(rbits, i) ==
  LET RECURSIVE s(_)
      s(k) == IF k > Len(rbits) THEN 0 ELSE BitOf(i, k - 1) * P2(rbits[k]) + s(k + 1)
  IN s(1)
NF(rbits) == P2(Len(rbits))
MaskOf(rbits) == FinOf(rbits, NF(rbits) - 1)

Tab1(name, rbits, keep, undef, Op(_, _)) ==
  [name |-> name, args |-> <<256>>, rbits |-> rbits, keep |-> keep, undef |-> undef,
   data |-> [i \in 1 .. 256 * NF(rbits) |->
               Op((i - 1) \div NF(rbits), FinOf(rbits, (i - 1) % NF(rbits)))]]

Tab2(name, n1, rbits, keep, undef, Op(_, _, _)) ==
  [name |-> name, args |-> <<n1, 256>>, rbits |-> rbits, keep |-> keep, undef |-> undef,
   data |-> [i \in 1 .. n1 * 256 * NF(rbits) |->
               LET j == (i - 1) \div NF(rbits)
               IN Op(j \div 256, j % 256, FinOf(rbits, (i - 1) % NF(rbits)))]]

Enc(r) == r.v * 256 + r.f

\* F' depends on F only through rbits, and keeps exactly `keep`
Sample == {0, 1, 15, 16, 127, 128, 153, 154, 255, 85, 170}
Merge1(rbits, keep, Op(_, _)) == \A a \in Sample, fin \in 0 .. 255 :
   Op(a, fin) = (Op(a, Keep(fin, MaskOf(rbits))) - Keep(Op(a, Keep(fin, MaskOf(rbits))), keep)) + Keep(fin, keep)
Merge2(n1, rbits, keep, Op(_, _, _)) == \A a \in (Sample \cap 0 .. (n1 - 1)), x \in Sample, fin \in 0 .. 255 :
   Op(a, x, fin) = (Op(a, x, Keep(fin, MaskOf(rbits))) - Keep(Op(a, x, Keep(fin, MaskOf(rbits))), keep)) + Keep(fin, keep)

Write(t) == JsonSerialize(OutDir \o "/" \o t.name \o ".json", t)

KSZP == FS + FZ + FPV
----------------------------------------------------------------------------
AluOp(y, a, x, fin) == LET r == Alu8(y, a, x, fin) IN r.a * 256 + r.f
AluT(y) == Tab2("ALU" \o ToString(y), 256, <<0>>, 0, 0, LAMBDA a, x, fin : AluOp(y, a, x, fin))
RotOp(y, x, fin) == Enc(Rot8(y, x, fin))
RotT(y) == Tab1("ROT" \o ToString(y), <<0>>, 0, 0, LAMBDA x, fin : RotOp(y, x, fin))

IncOp(x, fin) == Enc(Inc8(x, fin))
DecOp(x, fin) == Enc(Dec8(x, fin))
NegOp(a, fin) == Enc(Neg8(a, fin))
CplOp(a, fin) == Enc(Cpl8(a, fin))
ScfOp(a, fin) == Enc(Scf8(a, fin))
CcfOp(a, fin) == Enc(Ccf8(a, fin))
DaaOp(a, fin) == Enc(Daa8(a, fin))
RotAOp(k, a, fin) == Enc(RotA(k, a, fin))
RldOp(a, m, fin) == LET r == Rld8(a, m, fin) IN (r.a * 256 + r.m) * 256 + r.f
RrdOp(a, m, fin) == LET r == Rrd8(a, m, fin) IN (r.a * 256 + r.m) * 256 + r.f
BitROp(b, x, fin) == x * 256 + Bit8(b, x, fin, FALSE).f
BitMOp(b, x, fin) == x * 256 + Bit8(b, x, fin, TRUE).f
SetOp(b, x, fin) == Set8(b, x) * 256 + fin
ResOp(b, x, fin) == Res8(b, x) * 256 + fin

Small(dummy) ==
  /\ Merge1(<<>>, FC, IncOp) /\ Write(Tab1("INC", <<>>, FC, 0, IncOp))
  /\ Merge1(<<>>, FC, DecOp) /\ Write(Tab1("DEC", <<>>, FC, 0, DecOp))
  /\ Merge1(<<>>, 0, NegOp) /\ Write(Tab1("NEG", <<>>, 0, 0, NegOp))
  /\ Merge1(<<>>, KSZP + FC, CplOp) /\ Write(Tab1("CPL", <<>>, KSZP + FC, 0, CplOp))
  /\ Merge1(<<>>, KSZP, ScfOp) /\ Write(Tab1("SCF", <<>>, KSZP, F5 + F3, ScfOp))
  /\ Merge1(<<0>>, KSZP, CcfOp) /\ Write(Tab1("CCF", <<0>>, KSZP, F5 + F3, CcfOp))
  /\ Merge1(<<0, 1, 4>>, 0, DaaOp) /\ Write(Tab1("DAA", <<0, 1, 4>>, 0, 0, DaaOp))
  /\ Merge1(<<>>, KSZP, LAMBDA a, fin : RotAOp("RLCA", a, fin)) /\ Write(Tab1("RLCA", <<>>, KSZP, 0, LAMBDA a, fin : RotAOp("RLCA", a, fin)))
  /\ Merge1(<<>>, KSZP, LAMBDA a, fin : RotAOp("RRCA", a, fin)) /\ Write(Tab1("RRCA", <<>>, KSZP, 0, LAMBDA a, fin : RotAOp("RRCA", a, fin)))
  /\ Merge1(<<0>>, KSZP, LAMBDA a, fin : RotAOp("RLA", a, fin)) /\ Write(Tab1("RLA", <<0>>, KSZP, 0, LAMBDA a, fin : RotAOp("RLA", a, fin)))
  /\ Merge1(<<0>>, KSZP, LAMBDA a, fin : RotAOp("RRA", a, fin)) /\ Write(Tab1("RRA", <<0>>, KSZP, 0, LAMBDA a, fin : RotAOp("RRA", a, fin)))
  /\ Merge2(8, <<>>, FC, BitROp) /\ Write(Tab2("BITR", 8, <<>>, FC, 0, BitROp))
  /\ Merge2(8, <<>>, FC, BitMOp) /\ Write(Tab2("BITM", 8, <<>>, FC, F5 + F3, BitMOp))
  /\ Merge2(8, <<>>, 255, SetOp) /\ Write(Tab2("SET", 8, <<>>, 255, 0, SetOp))
  /\ Merge2(8, <<>>, 255, ResOp) /\ Write(Tab2("RES", 8, <<>>, 255, 0, ResOp))
  /\ \A y \in 0 .. 7 : Merge1(<<0>>, 0, LAMBDA x, fin : RotOp(y, x, fin)) /\ Write(RotT(y))
  \* condition codes and the refresh counter
  /\ JsonSerialize(OutDir \o "/COND.json",
        [name |-> "COND", data |-> [i \in 1 .. 2048 |-> IF Cond((i - 1) \div 256, (i - 1) % 256) THEN 1 ELSE 0]])
  /\ JsonSerialize(OutDir \o "/INCR.json",
        [name |-> "INCR", data |-> [i \in 1 .. 1024 |-> IncR((i - 1) % 256, (i - 1) \div 256)]])
  /\ JsonSerialize(OutDir \o "/INC16.json",
        [name |-> "INC16", data |-> [i \in 1 .. 65536 |-> Inc16(i - 1)]])
  /\ JsonSerialize(OutDir \o "/DEC16.json",
        [name |-> "DEC16", data |-> [i \in 1 .. 65536 |-> Dec16(i - 1)]])

Rld(dummy) == /\ Merge2(256, <<>>, FC, RldOp) /\ Write(Tab2("RLD", 256, <<>>, FC, 0, RldOp))
       /\ Merge2(256, <<>>, FC, RrdOp) /\ Write(Tab2("RRD", 256, <<>>, FC, 0, RrdOp))

\* directly evaluated 16-bit points (the harness validates its byte-serial
\* composition of the 8-bit tables against these before using it)
Lcg(i) == (((i % 65536) * 7919) + 13849 + ((i \div 7) * 4099)) % 65536
Spot16(dummy) ==
  LET pts == [i \in 1 .. 60000 |->
                LET a == IF i <= 23 * 23 THEN <<0, 1, 2, 15, 16, 255, 256, 257, 4095, 4096, 4097, 32767, 32768,
                                               32769, 61440, 65279, 65280, 65534, 65535, 4660, 43981, 30583,
                                               34952>>[((i - 1) \div 23) + 1]
                         ELSE Lcg(i)
                    x == IF i <= 23 * 23 THEN <<0, 1, 2, 15, 16, 255, 256, 257, 4095, 4096, 4097, 32767, 32768,
                                               32769, 61440, 65279, 65280, 65534, 65535, 4660, 43981, 30583,
                                               34952>>[((i - 1) % 23) + 1]
                         ELSE Lcg((i * 3) + 77777)
                    fin == ((i * 131) + 17 + (i \div 256)) % 256
                    ad == Add16(a, x, fin)  ac == Adc16(a, x, fin)  sb == Sbc16(a, x, fin)
                IN <<a, x, fin, ad.v, ad.f, ac.v, ac.f, sb.v, sb.f>>]
  IN JsonSerialize(OutDir \o "/SPOT16.json", [name |-> "SPOT16", data |-> pts])

\* C16: accessor tables (index = mask * 256 + F) and laws tying the set-based
\* definitions of Flags.tla to the bitwise ones
FlagLaws == \A f \in Byte, m \in Byte :
   /\ GetFlag(f, m) = ((f & m) # 0) /\ SetFlag(f, m) = (f | m) /\ ResetFlag(f, m) = (f & (255 - m))
   /\ ResetFlag(SetFlag(f, m), m) = ResetFlag(f, m) /\ GetFlag(SetFlag(f, m), m) = (m # 0)
FlagsPart(dummy) ==
  /\ FlagLaws
  /\ \A w \in Word : RegU16(RegHi(w), RegLo(w)) = w /\ RegHi(w) \in Byte /\ RegLo(w) \in Byte
  /\ JsonSerialize(OutDir \o "/FLAGS.json",
        [name |-> "FLAGS", consts |-> FlagConst,
         get |-> [i \in 1 .. 65536 |-> IF GetFlag((i - 1) % 256, (i - 1) \div 256) THEN 1 ELSE 0],
         set |-> [i \in 1 .. 65536 |-> SetFlag((i - 1) % 256, (i - 1) \div 256)],
         res |-> [i \in 1 .. 65536 |-> ResetFlag((i - 1) % 256, (i - 1) \div 256)],
         hi |-> [i \in 1 .. 65536 |-> RegHi(i - 1)], lo |-> [i \in 1 .. 65536 |-> RegLo(i - 1)]])

ASSUME
  CASE Part = "small" -> Small(0)
    [] Part = "flags" -> FlagsPart(0)
    [] Part = "rld" -> Rld(0)
    [] Part = "spot16" -> Spot16(0)
    [] Part \in {"alu0", "alu1", "alu2", "alu3", "alu4", "alu5", "alu6", "alu7"} ->
         LET y == CHOOSE y \in 0 .. 7 : Part = "alu" \o ToString(y)
         IN Merge2(256, <<0>>, 0, LAMBDA a, x, fin : AluOp(y, a, x, fin)) /\ Write(AluT(y))
ASSUME PrintT(<<"TABLES-OK", Part>>)
=============================================================================
