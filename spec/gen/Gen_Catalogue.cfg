
