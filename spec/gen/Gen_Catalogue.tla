---------------------------- MODULE Gen_Catalogue ----------------------------
(***************************************************************************)
(* The catalogue of opcode encodings of the 8-bit ALU / rotate / bit        *)
(* families (C02) and of the 16-bit arithmetic family (C03), derived with   *)
(* the decoder's own helpers (RName, R8, index modes), and a TLC-checked    *)
(* theorem tying every entry to ExecSet: executing the entry's bytes with  *)
(* the operand at the entry's location performs the entry's table operator. *)
(* The Go sweep places operands according to these entries.                 *)
(*   bytes: -1 stands for the displacement byte d, -2 for the immediate n   *)
(***************************************************************************)
EXTENDS Z80Core, Json, IOUtils, FiniteSets, SequencesExt

OutDir == IOEnv.OUTDIR
Modes == {"HL", "IX", "IY"}
Pfx(mode) == CASE mode = "HL" -> <<>> [] mode = "IX" -> <<221>> [] mode = "IY" -> <<253>>
MemLoc(mode) == CASE mode = "HL" -> "(HL)" [] mode = "IX" -> "(IX+d)" [] mode = "IY" -> "(IY+d)"
LocOf(z, mode) == IF z = 6 THEN MemLoc(mode) ELSE RName(z, mode)
DSlot(z, mode) == IF z = 6 /\ mode # "HL" THEN <<-1>> ELSE <<>>

CatAlu ==
  { [bytes |-> Pfx(m) \o <<128 + y * 8 + z>> \o DSlot(z, m), fam |-> "ALU", tab |-> "ALU" \o ToString(y),
     b |-> -1, loc |-> LocOf(z, m)] : y \in 0 .. 7, z \in 0 .. 7, m \in Modes }
  \cup { [bytes |-> <<198 + y * 8, -2>>, fam |-> "ALU", tab |-> "ALU" \o ToString(y), b |-> -1, loc |-> "n"]
         : y \in 0 .. 7 }

IncDecImpl(y, m) == m = "HL" \/ y \in {4, 5, 6}
CatIncDec ==
  { [bytes |-> Pfx(t[3]) \o <<t[1] * 8 + 4 + t[2]>> \o DSlot(t[1], t[3]), fam |-> "UN8",
     tab |-> IF t[2] = 0 THEN "INC" ELSE "DEC", b |-> -1, loc |-> LocOf(t[1], t[3])]
    : t \in { t \in (0 .. 7) \X (0 .. 1) \X Modes : IncDecImpl(t[1], t[3]) } }

CatAcc ==
  { [bytes |-> <<7>>, fam |-> "ACC", tab |-> "RLCA", b |-> -1, loc |-> "A"],
    [bytes |-> <<15>>, fam |-> "ACC", tab |-> "RRCA", b |-> -1, loc |-> "A"],
    [bytes |-> <<23>>, fam |-> "ACC", tab |-> "RLA", b |-> -1, loc |-> "A"],
    [bytes |-> <<31>>, fam |-> "ACC", tab |-> "RRA", b |-> -1, loc |-> "A"],
    [bytes |-> <<39>>, fam |-> "ACC", tab |-> "DAA", b |-> -1, loc |-> "A"],
    [bytes |-> <<47>>, fam |-> "ACC", tab |-> "CPL", b |-> -1, loc |-> "A"],
    [bytes |-> <<55>>, fam |-> "ACC", tab |-> "SCF", b |-> -1, loc |-> "A"],
    [bytes |-> <<63>>, fam |-> "ACC", tab |-> "CCF", b |-> -1, loc |-> "A"],
    [bytes |-> <<237, 68>>, fam |-> "ACC", tab |-> "NEG", b |-> -1, loc |-> "A"] }

CBTab(x, y, isMem) == CASE x = 0 -> "ROT" \o ToString(y)
                        [] x = 1 -> IF isMem THEN "BITM" ELSE "BITR"
                        [] x = 2 -> "RES"
                        [] x = 3 -> "SET"
CatCB ==
  { [bytes |-> <<203, x * 64 + y * 8 + z>>, fam |-> IF x = 1 THEN "BIT" ELSE "UN8",
     tab |-> CBTab(x, y, z = 6), b |-> IF x = 0 THEN -1 ELSE y, loc |-> LocOf(z, "HL")]
    : x \in 0 .. 3, y \in 0 .. 7, z \in 0 .. 7 }
  \cup
  { [bytes |-> Pfx(m) \o <<203, -1, x * 64 + y * 8 + 6>>, fam |-> IF x = 1 THEN "BIT" ELSE "UN8",
     tab |-> CBTab(x, y, TRUE), b |-> IF x = 0 THEN -1 ELSE y, loc |-> MemLoc(m)]
    : x \in 0 .. 3, y \in 0 .. 7, m \in {"IX", "IY"} }

CatRld == { [bytes |-> <<237, 111>>, fam |-> "RLD", tab |-> "RLD", b |-> -1, loc |-> "(HL)"],
            [bytes |-> <<237, 103>>, fam |-> "RLD", tab |-> "RRD", b |-> -1, loc |-> "(HL)"] }

Cat8 == CatAlu \cup CatIncDec \cup CatAcc \cup CatCB \cup CatRld

\* 16-bit family: dst / src register pairs ("HL" "IX" "IY" "BC" "DE" "SP")
RpName(p, m) == CASE p = 0 -> "BC" [] p = 1 -> "DE" [] p = 2 -> m [] p = 3 -> "SP"
Cat16 ==
  { [bytes |-> Pfx(m) \o <<9 + p * 16>>, fam |-> "ADD16", dst |-> m, src |-> RpName(p, m)]
    : p \in 0 .. 3, m \in Modes }
  \cup { [bytes |-> <<237, 74 + p * 16>>, fam |-> "ADC16", dst |-> "HL", src |-> RpName(p, "HL")] : p \in 0 .. 3 }
  \cup { [bytes |-> <<237, 66 + p * 16>>, fam |-> "SBC16", dst |-> "HL", src |-> RpName(p, "HL")] : p \in 0 .. 3 }
  \cup { [bytes |-> Pfx(t[3]) \o <<3 + t[1] * 16 + t[2] * 8>>, fam |-> IF t[2] = 0 THEN "INC16" ELSE "DEC16",
          dst |-> RpName(t[1], t[3]), src |-> RpName(t[1], t[3])]
         : t \in { t \in (0 .. 3) \X (0 .. 1) \X Modes : t[3] = "HL" \/ t[1] = 2 } }

----------------------------------------------------------------------------
(* the catalogue theorem: every entry, executed by the specification's      *)
(* decoder with the operand at entry.loc, applies entry.tab                 *)

Regs0 == [A |-> 0, F |-> 0, B |-> 17, C |-> 34, D |-> 51, E |-> 68, H |-> 64, L |-> 16,
          A_ |-> 1, F_ |-> 2, B_ |-> 3, C_ |-> 4, D_ |-> 5, E_ |-> 6, H_ |-> 7, L_ |-> 8,
          IXH |-> 80, IXL |-> 32, IYH |-> 96, IYL |-> 48, SP |-> 61440, PC |-> 256, I |-> 9, R |-> 10,
          IFF1 |-> FALSE, IFF2 |-> FALSE, IM |-> 0]
DVal == 5
Ctx0 == [r |-> Regs0, m |-> <<>>, dev |-> [mk |-> "const", seed |-> 0, val |-> 0, len |-> 65536],
         io |-> [ik |-> "nil", seed |-> 0, len |-> 0], iom |-> <<>>, nin |-> 0, seen |-> <<>>, rd |-> <<>>, wr |-> <<>>, pio |-> <<>>,
         halt |-> FALSE, hc |-> <<0, 0>>, ovl |-> NoOvl, v |-> 0, u |-> 0, ralt |-> FALSE, tag |-> "",
         pend |-> [t |-> "none"], aei |-> FALSE, rslack |-> 0]

IsMemLoc(loc) == loc \in {"(HL)", "(IX+d)", "(IY+d)"}
MemAddr(c, loc) == CASE loc = "(HL)" -> GetHL(c, "HL")
                     [] loc = "(IX+d)" -> W(GetHL(c, "IX") + DVal)
                     [] loc = "(IY+d)" -> W(GetHL(c, "IY") + DVal)
\* context with accumulator a, flags fin, operand x at loc, and the entry's bytes at PC
Place(e, a, x, fin) ==
  LET c1 == [Ctx0 EXCEPT !.r.A = a, !.r.F = fin]
      c2 == IF e.loc = "n" \/ IsMemLoc(e.loc) THEN c1 ELSE [c1 EXCEPT !.r[e.loc] = x]
      bytes == [i \in 1 .. Len(e.bytes) |-> CASE e.bytes[i] = -1 -> DVal [] e.bytes[i] = -2 -> x [] OTHER -> e.bytes[i]]
      code == [a2 \in {256 + i - 1 : i \in 1 .. Len(bytes)} |-> bytes[a2 - 255]]
      data == IF IsMemLoc(e.loc) THEN (MemAddr(c2, e.loc) :> x) ELSE <<>>
  IN [c2 EXCEPT !.m = code @@ data]

LocVal(c, loc) == IF IsMemLoc(loc) THEN Peek(c, MemAddr(c, loc)) ELSE c.r[loc]

Expect(e, a, x, fin) ==     \* [a, x, f, u] expected after the instruction
  LET y == IF e.fam = "ALU" \/ e.tab \in {"ROT0", "ROT1", "ROT2", "ROT3", "ROT4", "ROT5", "ROT6", "ROT7"}
           THEN CHOOSE k \in 0 .. 7 : e.tab \in {"ALU" \o ToString(k), "ROT" \o ToString(k)} ELSE 0
  IN CASE e.fam = "ALU" -> LET r == Alu8(y, a, x, fin) IN [a |-> r.a, x |-> x, f |-> r.f, u |-> r.u]
       [] e.fam = "ACC" ->
            LET r == CASE e.tab = "NEG" -> Neg8(a, fin) [] e.tab = "CPL" -> Cpl8(a, fin)
                       [] e.tab = "DAA" -> Daa8(a, fin) [] e.tab = "SCF" -> Scf8(a, fin)
                       [] e.tab = "CCF" -> Ccf8(a, fin) [] OTHER -> RotA(e.tab, a, fin)
            IN [a |-> r.v, x |-> r.v, f |-> r.f, u |-> r.u]
       [] e.fam = "BIT" -> LET r == Bit8(e.b, x, fin, IsMemLoc(e.loc)) IN [a |-> a, x |-> x, f |-> r.f, u |-> r.u]
       [] e.fam = "RLD" -> LET r == IF e.tab = "RLD" THEN Rld8(a, x, fin) ELSE Rrd8(a, x, fin)
                           IN [a |-> r.a, x |-> r.m, f |-> r.f, u |-> r.u]
       [] e.fam = "UN8" ->
            LET r == CASE e.tab = "INC" -> Inc8(x, fin) [] e.tab = "DEC" -> Dec8(x, fin)
                       [] e.tab = "SET" -> [v |-> Set8(e.b, x), f |-> fin, u |-> 0]
                       [] e.tab = "RES" -> [v |-> Res8(e.b, x), f |-> fin, u |-> 0]
                       [] OTHER -> Rot8(y, x, fin)
            IN [a |-> IF e.loc = "A" THEN r.v ELSE a, x |-> r.v, f |-> r.f, u |-> r.u]

EntryOK(e, a, x0, fin) ==
  LET x == IF e.loc = "A" THEN a ELSE x0
      c == Place(e, a, x, fin)
      outs == ExecSet(StartStep(c))
      o == CHOOSE o \in outs : TRUE
      ex == Expect(e, a, x, fin)
  IN /\ Cardinality(outs) = 1 /\ Implemented(c)
     /\ o.r.A = ex.a /\ (e.loc \in {"n", "A"} \/ LocVal(o, e.loc) = ex.x) /\ o.r.F = ex.f /\ o.u = ex.u
     /\ o.r.PC = 256 + Len(e.bytes)

Samples == {<<0, 0, 0>>, <<255, 1, 1>>, <<18, 129, 255>>, <<153, 103, 19>>, <<128, 128, 254>>}
Theorem8 == \A e \in Cat8 : \A s \in Samples : EntryOK(e, s[1], s[2], s[3])

Get16(c, n) == CASE n = "BC" -> GetRP(c, 0, "HL") [] n = "DE" -> GetRP(c, 1, "HL") [] n = "SP" -> c.r.SP
                 [] OTHER -> GetHL(c, n)
Put16(c, n, w) == CASE n = "BC" -> SetRP(c, 0, "HL", w) [] n = "DE" -> SetRP(c, 1, "HL", w)
                    [] n = "SP" -> [c EXCEPT !.r.SP = w] [] OTHER -> SetHL(c, n, w)
Entry16OK(e, a, x0, fin) ==
  LET x == IF e.src = e.dst THEN a ELSE x0
      c0 == Put16(Put16([Ctx0 EXCEPT !.r.F = fin], e.src, x), e.dst, a)
      code == [a2 \in {256 + i - 1 : i \in 1 .. Len(e.bytes)} |-> e.bytes[a2 - 255]]
      c == [c0 EXCEPT !.m = code]
      outs == ExecSet(StartStep(c))
      o == CHOOSE o \in outs : TRUE
      ex == CASE e.fam = "ADD16" -> Add16(a, x, fin) [] e.fam = "ADC16" -> Adc16(a, x, fin)
              [] e.fam = "SBC16" -> Sbc16(a, x, fin)
              [] e.fam = "INC16" -> [v |-> Inc16(a), f |-> fin, u |-> 0]
              [] e.fam = "DEC16" -> [v |-> Dec16(a), f |-> fin, u |-> 0]
  IN Cardinality(outs) = 1 /\ Implemented(c) /\ Get16(o, e.dst) = ex.v /\ o.r.F = ex.f
     /\ (e.src # e.dst => Get16(o, e.src) = x)
Samples16 == {<<0, 0, 0>>, <<65535, 1, 1>>, <<4095, 1, 255>>, <<32767, 32769, 196>>, <<4660, 61455, 1>>}
Theorem16 == \A e \in Cat16 : \A s \in Samples16 : Entry16OK(e, s[1], s[2], s[3])

ASSUME Theorem8
ASSUME Theorem16
ASSUME JsonSerialize(OutDir \o "/CAT8.json", [name |-> "CAT8", dval |-> DVal, data |-> SetToSeq(Cat8)])
ASSUME JsonSerialize(OutDir \o "/CAT16.json", [name |-> "CAT16", data |-> SetToSeq(Cat16)])
ASSUME PrintT(<<"CATALOGUE-OK", Cardinality(Cat8), Cardinality(Cat16)>>)
=============================================================================
