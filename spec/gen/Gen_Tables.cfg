
