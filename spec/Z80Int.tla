------------------------------- MODULE Z80Int -------------------------------
(***************************************************************************)
(* The start-of-Step interrupt logic and the complete Step relation.        *)
(*                                                                           *)
(* c.pend : the pending request - [t |-> "none"], [t |-> "nmi"] or          *)
(*          [t |-> "int", d |-> <<data bytes>>]                             *)
(* c.aei  : the previous Step executed EI (silicon delays acceptance by one *)
(*          instruction; the property allows either)                        *)
(* c.rslack : R may be up to this many counts lower than c.r.R              *)
(*                                                                           *)
(* Outcomes are named so a validated trace says which rule it used; the     *)
(* implementation's deliberate deviation from the Z80 rule in mode 0 is its *)
(* own named outcome ("INT0 as-coded", finding F3).                         *)
(***************************************************************************)
EXTENDS Z80Core

None == [t |-> "none"]

\* common tail of every acceptance of a maskable request
MaskableAccepted(c, tag) ==
  [c EXCEPT !.r.IFF1 = FALSE, !.r.IFF2 = FALSE, !.pend = None, !.tag = tag, !.aei = FALSE]

\* silicon's acknowledge cycle increments R, the implementation's does not: either
AckR(c) == [c EXCEPT !.r.R = IncR(@, 1), !.rslack = 1]

AcceptNMI(c) ==
  LET c1 == Push(c, c.r.PC)
  IN AckR([c1 EXCEPT !.r.PC = 102, !.r.IFF2 = c.r.IFF1, !.r.IFF1 = FALSE,
                     !.pend = None, !.tag = "NMI", !.aei = FALSE])

AcceptINT1(c) ==
  LET c1 == Push(c, c.r.PC)
  IN AckR(MaskableAccepted([c1 EXCEPT !.r.PC = 56], "INT1"))

AcceptINT2(c) ==
  LET vec == c.pend.d[1]
      c1 == Push(c, c.r.PC)
      c2 == RdWord(c1, Mk16(c.r.I, vec - (vec % 2)))
  IN AckR(MaskableAccepted([c2 EXCEPT !.r.PC = c2.v], "INT2"))

\* mode 0, the Z80 rule, for the supplied instructions the properties name:
\* RST p and CALL nn execute with PC not advanced by their fetch
IsRst(b) == b >= 192 /\ b % 8 = 7
Int0Z80Defined(d) == Len(d) >= 1 /\ (IsRst(d[1]) \/ (d[1] = 205 /\ Len(d) >= 3))
AcceptINT0_Z80(c) ==
  LET d == c.pend.d
      c1 == Push(c, c.r.PC)
      target == IF IsRst(d[1]) THEN d[1] - 199 ELSE Mk16(d[3], d[2])
  IN AckR(MaskableAccepted([c1 EXCEPT !.r.PC = target], "INT0 z80"))

\* mode 0 as the implementation does it: the supplied bytes are mapped over
\* memory at PC..PC+len-1 (reads come from the data, writes there are dropped,
\* neither reaches the bus) and one instruction is executed, so PC advances
\* over the bytes fetched.
AcceptINT0_AsCoded(c) ==
  LET d == c.pend.d
      c1 == [c EXCEPT !.ovl = [n |-> Len(d), start |-> c.r.PC, data |-> d]]
  IN { LET m1 == ((o.r.R % 128) - (c.r.R % 128)) % 128
       IN MaskableAccepted([o EXCEPT !.ovl = NoOvl, !.rslack = m1], "INT0 as-coded")
       : o \in ExecSet(c1) }

\* mode 0 or 2 with no data byte: the request is consumed and nothing happens
\* (the flip-flops may or may not be cleared)
ConsumeEmpty(c) ==
  { [c EXCEPT !.pend = None, !.tag = "INT empty", !.aei = FALSE],
    MaskableAccepted(c, "INT empty") }

\* no acceptance: execute the instruction at PC; a pending request stays
ExecAll(c) == { [o EXCEPT !.aei = (o.tag = "EI")] : o \in ExecSet(c) }

Maskable(c) == c.pend.t = "int"
Refused(c)  == Maskable(c) /\ (~c.r.IFF1 \/ c.r.IM \notin {0, 1, 2})

\* int0: which mode-0 rule(s) to admit - "z80" (the Z80 rule), "ascoded" (the implementation's
\* overlay mechanism, finding F3) or "both" (what trace validation uses)
AcceptSetM(c, int0) ==
  CASE c.r.IM = 1 -> {AcceptINT1(c)}
    [] c.r.IM = 2 -> IF Len(c.pend.d) > 0 THEN {AcceptINT2(c)} ELSE ConsumeEmpty(c)
    [] c.r.IM = 0 -> IF Len(c.pend.d) = 0 THEN ConsumeEmpty(c)
                     ELSE (IF int0 \in {"ascoded", "both"} \/ ~Int0Z80Defined(c.pend.d)
                           THEN AcceptINT0_AsCoded(c) ELSE {})
                          \cup (IF int0 \in {"z80", "both"} /\ Int0Z80Defined(c.pend.d)
                                THEN {AcceptINT0_Z80(c)} ELSE {})
AcceptSet(c) == AcceptSetM(c, "both")

(***************************************************************************)
(* StepSet(c0): every allowed result of one Step from c0.                   *)
(***************************************************************************)
StepSetM(c0, int0) ==
  LET c == [StartStep(c0) EXCEPT !.rslack = 0]
  IN CASE c.pend.t = "none" -> ExecAll(c)
       [] c.pend.t = "nmi"  -> {AcceptNMI(c)}
       [] Refused(c)        -> ExecAll(c)
       [] OTHER             -> AcceptSetM(c, int0) \cup (IF c.aei THEN ExecAll(c) ELSE {})
StepSet(c0) == StepSetM(c0, "both")

\* R values an outcome allows
RAllowed(o) ==
  LET k == (IF o.ralt THEN 1 ELSE 0) + o.rslack
  IN { IncR(o.r.R, 128 - j) : j \in 0 .. k }
=============================================================================
