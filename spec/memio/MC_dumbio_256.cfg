SPECIFICATION Spec
CONSTANTS
  Kind = "dumbio"
  Len0 = 256
  MaxOps = 4
INVARIANTS ReadYourWrite GetInRange BeyondReadsZero UntouchedDefault EqualLaws PutIsSets
PROPERTIES CloneIndependent
CHECK_DEADLOCK FALSE
