SPECIFICATION Spec
CONSTANTS
  Kind = "mapmem"
  Len0 = 65536
  MaxOps = 4
INVARIANTS ReadYourWrite GetInRange BeyondReadsZero UntouchedDefault EqualLaws PutIsSets
PROPERTIES CloneIndependent
CHECK_DEADLOCK FALSE
