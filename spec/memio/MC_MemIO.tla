------------------------------ MODULE MC_MemIO ------------------------------
(***************************************************************************)
(* Exhaustive exploration of operation sequences over boundary lengths,    *)
(* addresses and two values, up to two objects (Clone independence,        *)
(* Equal), with invariants: read-your-write, default elsewhere, writes     *)
(* beyond the slice ignored, clone independence, Equal reflexive/symmetric *)
(* and false after a differing Set.                                        *)
(***************************************************************************)
EXTENDS MemIO

CONSTANTS Kind, Len0, MaxOps
VARIABLES objs,      \* sequence of objects (1 or 2)
          last,      \* [op, id, a, v, ret] of the last operation
          n

Addrs(o) == {0, 1, o.len - 1, o.len, AddrSpace(o) - 1} \cap 0 .. (AddrSpace(o) - 1)
Vals == {90, 199, 0}

Init == objs = <<New(Kind, Len0)>> /\ last = [op |-> "new", id |-> 1, a |-> 0, v |-> 0, ret |-> 0, d |-> <<>>] /\ n = 0

DoSet(i, a, v) == /\ objs' = [objs EXCEPT ![i] = Write(@, a, v)]
                  /\ last' = [op |-> "set", id |-> i, a |-> a, v |-> v, ret |-> 0, d |-> <<>>]
DoGet(i, a) == /\ UNCHANGED objs
               /\ last' = [op |-> "get", id |-> i, a |-> a, v |-> 0, ret |-> Read(objs[i], a), d |-> <<>>]
DoPut(i, a, d) == /\ PutOK(objs[i], a, d) /\ objs[i].kind # "dumbio"
                  /\ objs' = [objs EXCEPT ![i] = Put(@, a, d)]
                  /\ last' = [op |-> "put", id |-> i, a |-> a, v |-> Len(d), ret |-> 0, d |-> d]
DoClone(i) == /\ Len(objs) = 1 /\ objs[i].kind = "mapmem"
              /\ objs' = Append(objs, objs[i])
              /\ last' = [op |-> "clone", id |-> i, a |-> 0, v |-> 0, ret |-> 0, d |-> <<>>]
DoEqual(i, j) == /\ objs[i].kind = "mapmem" /\ UNCHANGED objs
                 /\ last' = [op |-> "equal", id |-> i, a |-> j, v |-> 0, d |-> <<>>,
                              ret |-> LET s == EqualAllowed(objs[i], objs[j])
                                      IN IF s = {TRUE} THEN 1 ELSE IF s = {FALSE} THEN 0 ELSE 2]
DoClear(i) == /\ objs[i].kind = "mapmem" /\ objs' = [objs EXCEPT ![i] = Clear(@)]
              /\ last' = [op |-> "clear", id |-> i, a |-> 0, v |-> 0, ret |-> 0, d |-> <<>>]

Next == /\ n < MaxOps /\ n' = n + 1
        /\ \E i \in 1 .. Len(objs) :
             \/ \E a \in Addrs(objs[i]), v \in Vals : DoSet(i, a, v)
             \/ \E a \in Addrs(objs[i]) : DoGet(i, a)
             \/ \E a \in Addrs(objs[i]), d \in {<<90>>, <<90, 7>>, <<1, 2, 3>>} : DoPut(i, a, d)
             \/ DoClone(i) \/ DoClear(i) \/ \E j \in 1 .. Len(objs) : DoEqual(i, j)
Spec == Init /\ [][Next]_<<objs, last, n>>

\* read-your-write / writes beyond the slice are ignored / default elsewhere
ReadYourWrite == last.op = "set" =>
   Read(objs[last.id], last.a) = (IF last.a < objs[last.id].len THEN last.v ELSE 0)
GetInRange == last.op = "get" => last.ret \in 0 .. 255
BeyondReadsZero == \A i \in 1 .. Len(objs) : \A a \in Addrs(objs[i]) : a >= objs[i].len => Read(objs[i], a) = 0
UntouchedDefault == \A i \in 1 .. Len(objs) : \A a \in Addrs(objs[i]) :
   (a < objs[i].len /\ a \notin DOMAIN objs[i].m) => Read(objs[i], a) = Default(objs[i])
EqualLaws == \A i, j \in 1 .. Len(objs) : objs[i].kind = "mapmem" =>
   /\ TRUE \in EqualAllowed(objs[i], objs[i])
   /\ EqualAllowed(objs[i], objs[j]) = EqualAllowed(objs[j], objs[i])
   /\ (\E a \in Addrs(objs[i]) : Read(objs[i], a) # Read(objs[j], a)) => EqualAllowed(objs[i], objs[j]) = {FALSE}
\* (action property) an operation on one object never changes the other
CloneIndependent == [][\A i \in 1 .. Len(objs) : (last'.id # i /\ Len(objs') = Len(objs)) => objs'[i] = objs[i]]_<<objs, last, n>>
PutIsSets == last.op = "put" => \A k \in 0 .. (last.v - 1) :
   LET a == Wrap(objs[last.id], last.a + k) IN a < objs[last.id].len => a \in DOMAIN objs[last.id].m
=============================================================================
