SPECIFICATION Spec
CONSTANTS
  Kind = "mapmem"
  Len0 = 65536
  MaxOps = 12
CHECK_DEADLOCK FALSE
