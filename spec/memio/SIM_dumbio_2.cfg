SPECIFICATION Spec
CONSTANTS
  Kind = "dumbio"
  Len0 = 2
  MaxOps = 12
CHECK_DEADLOCK FALSE
