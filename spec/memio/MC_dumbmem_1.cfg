SPECIFICATION Spec
CONSTANTS
  Kind = "dumbmem"
  Len0 = 1
  MaxOps = 4
INVARIANTS ReadYourWrite GetInRange BeyondReadsZero UntouchedDefault EqualLaws PutIsSets
PROPERTIES CloneIndependent
CHECK_DEADLOCK FALSE
