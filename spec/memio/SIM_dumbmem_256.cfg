SPECIFICATION Spec
CONSTANTS
  Kind = "dumbmem"
  Len0 = 256
  MaxOps = 12
CHECK_DEADLOCK FALSE
