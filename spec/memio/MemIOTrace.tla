----------------------------- MODULE MemIOTrace -----------------------------
(***************************************************************************)
(* Trace validation for C15: operation sequences recorded from the real    *)
(* DumbMemory / DumbIO / MapMemory values are replayed against MemIO.      *)
(*   new(id,kind,len) get/in(id,a,ret) set/out(id,a,v) put(id,a,data)      *)
(*   clone(id,new) clear(id) equal(id,other,ret) (other = 0: not a         *)
(*   MapMemory argument) panic(op...)                                       *)
(***************************************************************************)
EXTENDS MemIO, Json, IOUtils

TraceLog == ndJsonDeserialize(IOEnv.TRACE)
VARIABLES l, objs, bad, cov, done
vars == <<l, objs, bad, cov, done>>
Ev == TraceLog[l]
Bump(f, k) == IF k \in DOMAIN f THEN [f EXCEPT ![k] = @ + 1] ELSE (k :> 1) @@ f
Reject(why) == bad' = IF Len(bad) < 40 THEN Append(bad, [line |-> l, asp |-> {why}, tag |-> Ev.o]) ELSE bad

Init == l = 1 /\ objs = <<>> /\ bad = <<>> /\ cov = <<>> /\ done = FALSE

Step ==
  /\ l <= Len(TraceLog) /\ l' = l + 1 /\ done' = FALSE
  /\ LET o == Ev.o IN
     CASE o = "new" ->
            /\ objs' = (Ev.id :> New(Ev.kind, Ev.len)) @@ objs /\ bad' = bad /\ cov' = Bump(cov, "new " \o Ev.kind)
       [] o \in {"get", "in"} ->
            /\ UNCHANGED objs
            /\ IF Ev.ret = Read(objs[Ev.id], Ev.a) THEN bad' = bad /\ cov' = Bump(cov, objs[Ev.id].kind \o " " \o o \o
                     (IF Ev.a >= objs[Ev.id].len THEN " beyond" ELSE ""))
               ELSE Reject("read") /\ cov' = Bump(cov, "REJECTED")
       [] o \in {"set", "out"} ->
            /\ objs' = [objs EXCEPT ![Ev.id] = Write(@, Ev.a, Ev.v)] /\ bad' = bad
            /\ cov' = Bump(cov, objs[Ev.id].kind \o " " \o o \o (IF Ev.a >= objs[Ev.id].len THEN " beyond" ELSE ""))
       [] o = "put" ->
            /\ objs' = [objs EXCEPT ![Ev.id] = Put(@, Ev.a, Ev.data)] /\ bad' = bad
            /\ cov' = Bump(cov, objs[Ev.id].kind \o " put" \o (IF Ev.a + Len(Ev.data) > 65536 THEN " wrap" ELSE ""))
       [] o = "clone" ->
            /\ objs' = (Ev.new :> objs[Ev.id]) @@ objs /\ bad' = bad /\ cov' = Bump(cov, "clone")
       [] o = "clear" ->
            /\ objs' = [objs EXCEPT ![Ev.id] = Clear(@)] /\ bad' = bad /\ cov' = Bump(cov, "clear")
       [] o = "equal" ->
            /\ UNCHANGED objs
            /\ \* other = 0 or > 1000000: the argument was not a MapMemory value (a plain map with the same contents, nil,
               \* a DumbMemory, a pointer): never equal
               LET allowed == IF Ev.other = 0 \/ Ev.other > 1000000 THEN {FALSE}
                              ELSE EqualAllowed(objs[Ev.id], objs[Ev.other])
               IN IF (Ev.ret = 1) \in allowed
                  THEN bad' = bad /\ cov' = Bump(cov, "equal " \o (IF Ev.ret = 1 THEN "true" ELSE "false"))
                  ELSE Reject("equal") /\ cov' = Bump(cov, "REJECTED")
       [] o = "panic" ->
            /\ UNCHANGED objs /\ Reject("panic") /\ cov' = Bump(cov, "REJECTED")

Done == /\ l = Len(TraceLog) + 1 /\ ~done
        /\ PrintT(<<"TRACE-RESULT", ToJson([consumed |-> l - 1, bad |-> bad, cov |-> cov])>>)
        /\ done' = TRUE /\ UNCHANGED <<l, objs, bad, cov>>
Next == Step \/ Done
Spec == Init /\ [][Next]_vars
=============================================================================
