-------------------------------- MODULE MemIO --------------------------------
(***************************************************************************)
(* C15: sequential specification of the bundled memory and port types.     *)
(*   dumbmem(len) : DumbMemory, a slice of len bytes, zero filled          *)
(*   dumbio(len)  : DumbIO, likewise, 8-bit addresses                      *)
(*   mapmem       : MapMemory, explicit cells over a default of 0xC7       *)
(* An object is [kind, len, m] with m the finite function of explicit      *)
(* cells.  Addresses beyond the slice read as 0 and ignore writes.         *)
(***************************************************************************)
EXTENDS Integers, Sequences, FiniteSets, TLC

Default(o) == IF o.kind = "mapmem" THEN 199 ELSE 0
AddrSpace(o) == IF o.kind = "dumbio" THEN 256 ELSE 65536
Wrap(o, a) == a % AddrSpace(o)

New(kind, len) == [kind |-> kind, len |-> IF kind = "mapmem" THEN 65536 ELSE len, m |-> <<>>]

Read(o, a) == IF a >= o.len THEN 0 ELSE IF a \in DOMAIN o.m THEN o.m[a] ELSE Default(o)
Write(o, a, v) == IF a >= o.len THEN o ELSE [o EXCEPT !.m = (a :> v) @@ @]

\* Put: consecutive bytes from a; MapMemory wraps past FFFF; for DumbMemory the block must
\* lie inside the slice (precondition PutOK, otherwise the behaviour is not specified)
PutOK(o, a, data) == o.kind = "mapmem" \/ a + Len(data) <= o.len
RECURSIVE PutFrom(_, _, _, _)
PutFrom(o, a, data, i) == IF i > Len(data) THEN o
                          ELSE PutFrom(Write(o, Wrap(o, a + i - 1), data[i]), a, data, i + 1)
Put(o, a, data) == PutFrom(o, a, data, 1)

Clear(o) == [o EXCEPT !.m = <<>>]

\* Equal(a, b) for two initialised MapMemory values: TRUE when the explicit cells coincide,
\* FALSE when some address reads differently; when they differ only by explicitly stored
\* default bytes either answer is allowed
SameCells(a, b) == DOMAIN a.m = DOMAIN b.m /\ \A x \in DOMAIN a.m : a.m[x] = b.m[x]
SameReads(a, b) == \A x \in DOMAIN a.m \cup DOMAIN b.m : Read(a, x) = Read(b, x)
EqualAllowed(a, b) == IF SameCells(a, b) THEN {TRUE}
                      ELSE IF ~SameReads(a, b) THEN {FALSE} ELSE {TRUE, FALSE}
=============================================================================
