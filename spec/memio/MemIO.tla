-------------------------------- MODULE MemIO --------------------------------
(***************************************************************************)
(* C15: sequential specification of the bundled memory and port types.     *)
(*   dumbmem(len) : DumbMemory, a slice of len bytes, zero filled          *)
(*   dumbio(len)  : DumbIO, likewise, 8-bit addresses                      *)
(*   mapmem       : MapMemory, explicit cells over a default of 0xC7       *)
(* An object is [kind, len, m] with m the finite function of explicit      *)
(* cells.  Addresses beyond the slice read as 0 and ignore writes.         *)
(***************************************************************************)
EXTENDS Integers, Sequences, FiniteSets, TLC

Default(o) == IF o.kind = "mapmem" THEN 199 ELSE 0
AddrSpace(o) == IF o.kind = "dumbio" THEN 256 ELSE 65536
Wrap(o, a) == a % AddrSpace(o)

New(kind, len) == [kind |-> kind, len |-> IF kind = "mapmem" THEN 65536 ELSE len, m |-> <<>>]

Read(o, a) == IF a >= o.len THEN 0 ELSE IF a \in DOMAIN o.m THEN o.m[a] ELSE Default(o)
Write(o, a, v) == IF a >= o.len THEN o ELSE [o EXCEPT !.m = (a :> v) @@ @]

\* Put: consecutive bytes from a; MapMemory wraps past FFFF; for DumbMemory the block must
\* lie inside the slice (precondition PutOK, otherwise the behaviour is not specified)
PutOK(o, a, data) == o.kind = "mapmem" \/ a + Len(data) <= o.len
\* closed form (a block may be longer than the address space: the last write to an address wins)
Put(o, a, data) ==
  LET n == Len(data)
      sp == AddrSpace(o)
      touched == IF n >= sp THEN 0 .. (sp - 1) ELSE {Wrap(o, a + i - 1) : i \in 1 .. n}
      \* index of the last element of data stored at address x
      LastIdx(x) == LET i0 == ((x - a) % sp) + 1 IN i0 + sp * ((n - i0) \div sp)
      inside == {x \in touched : x < o.len}
  IN [o EXCEPT !.m = [x \in inside |-> data[LastIdx(x)]] @@ @]

Clear(o) == [o EXCEPT !.m = <<>>]

\* Equal(a, b) for two initialised MapMemory values: TRUE when the explicit cells coincide,
\* FALSE when some address reads differently; when they differ only by explicitly stored
\* default bytes either answer is allowed
SameCells(a, b) == DOMAIN a.m = DOMAIN b.m /\ \A x \in DOMAIN a.m : a.m[x] = b.m[x]
SameReads(a, b) == \A x \in DOMAIN a.m \cup DOMAIN b.m : Read(a, x) = Read(b, x)
EqualAllowed(a, b) == IF SameCells(a, b) THEN {TRUE}
                      ELSE IF ~SameReads(a, b) THEN {FALSE} ELSE {TRUE, FALSE}
=============================================================================
