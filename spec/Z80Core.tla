------------------------------ MODULE Z80Core ------------------------------
(***************************************************************************)
(* One Z80 instruction over an abstract bus.                                *)
(*                                                                           *)
(* A context record c is threaded through micro-operations:                 *)
(*   c.r    registers (A F B C D E H L, primed set, IXH IXL IYH IYL, SP PC, *)
(*          I R, IFF1 IFF2 IM)                                               *)
(*   c.m    memory cells written or placed so far (finite function)         *)
(*   c.dev  what memory answers elsewhere: [mk, seed, val, len]             *)
(*   c.io   port device: [ik, seed, len];  c.iom cells of a "dumb" device;  *)
(*          c.nin port reads answered so far by a "hash" device            *)
(*   c.rd / c.wr / c.pio   bus accesses of the current Step                 *)
(*   c.halt, c.hc (RETN / RETI handler call counters)                       *)
(*   c.ovl  mode-0 overlay (only used by Z80Int)                            *)
(*   c.v    scratch: value produced by the last micro-operation             *)
(*   c.u    mask of F bits left undefined by this Step                      *)
(*   c.ralt TRUE when R may also be one less (DDCB/FDCB: 2 or 3 fetches)    *)
(*   c.tag  name of the instruction class executed (for coverage)           *)
(*                                                                           *)
(* Decoding is algorithmic (x/y/z/p/q fields of the opcode, r[0..7],        *)
(* rp[0..3], index mode HL/IX/IY) - structurally unlike the implementation's *)
(* hand-expanded switch, which is what makes it an independent oracle.      *)
(***************************************************************************)
EXTENDS Z80Alu, TLC

----------------------------------------------------------------------------
(* devices *)

\* pseudo-random but computable background contents of a "hash" memory
MemHash(seed, a) == ((a * 197) + ((a \div 256) * 91) + (seed * 57) + ((a \div 3) * 11) + 13) % 256
\* byte a "hash" port device returns for its k-th read (k = 0,1,.. since it was attached: c.nin)
IoHash(seed, port, k) == ((port * 31) + (k * 101) + (seed * 7) + 5) % 256

\* "image": a program image (sequence dev.img) loaded at dev.seed over a background of dev.val
Base(dev, a) == IF dev.mk \in {"hash", "volatile"} THEN MemHash(dev.seed, a)
                ELSE IF dev.mk = "image" /\ W(a - dev.seed) < Len(dev.img) THEN dev.img[W(a - dev.seed) + 1]
                ELSE dev.val

InOvl(c, a) == c.ovl.n > 0 /\ W(a - c.ovl.start) < c.ovl.n

\* "volatile" device: every address >= dev.val is a read-sensitive register (read-to-clear, FIFO head):
\* the first bus read of an address returns what memory holds there, each later read of the same address
\* a different value; writes there do not stick.  c.seen[a] = bus reads of a made so far.
IsVolatile(c, a) == c.dev.mk = "volatile" /\ a >= c.dev.val

\* value memory holds at a (no bus access)
Peek(c, a) ==
  IF InOvl(c, a) THEN c.ovl.data[W(a - c.ovl.start) + 1]
  ELSE IF IsVolatile(c, a) /\ a \in DOMAIN c.seen THEN MemHash(c.dev.seed, a + 7 * c.seen[a])
  ELSE IF a >= c.dev.len THEN 0
  ELSE IF a \in DOMAIN c.m THEN c.m[a]
  ELSE Base(c.dev, a)

RdMem(c, a) ==
  IF InOvl(c, a) THEN [c EXCEPT !.v = Peek(c, a)]
  ELSE [c EXCEPT !.v = Peek(c, a), !.rd = Append(@, a),
                 !.seen = IF IsVolatile(c, a)
                          THEN (a :> (IF a \in DOMAIN @ THEN @[a] + 1 ELSE 1)) @@ @ ELSE @]

WrMem(c, a, x) ==
  IF InOvl(c, a) THEN c
  ELSE [c EXCEPT !.m = IF a < c.dev.len /\ ~IsVolatile(c, a) THEN (a :> x) @@ @ ELSE @,
                 !.wr = Append(@, <<a, x>>)]

Ins(pio) == Len(SelectSeq(pio, LAMBDA e : e[1] = 0))

PortIn(c, port) ==
  CASE c.io.ik = "nil"  -> [c EXCEPT !.v = 0]
    [] c.io.ik = "hash" -> LET x == IoHash(c.io.seed, port, c.nin)
                           IN [c EXCEPT !.v = x, !.pio = Append(@, <<0, port, x>>), !.nin = @ + 1]
    [] c.io.ik = "dumb" -> LET x == IF port < c.io.len /\ port \in DOMAIN c.iom
                                    THEN c.iom[port] ELSE 0
                           IN [c EXCEPT !.v = x, !.pio = Append(@, <<0, port, x>>)]
    \* the mini CP/M console: every read answers 0 (and only produces a warning)
    [] c.io.ik = "console" -> [c EXCEPT !.v = 0, !.pio = Append(@, <<0, port, 0>>)]

PortOut(c, port, x) ==
  CASE c.io.ik = "nil"  -> c
    [] c.io.ik \in {"hash", "console"} -> [c EXCEPT !.pio = Append(@, <<1, port, x>>)]
    [] c.io.ik = "dumb" -> [c EXCEPT !.pio = Append(@, <<1, port, x>>),
                                     !.iom = IF port < c.io.len THEN (port :> x) @@ @ ELSE @]

----------------------------------------------------------------------------
(* fetches *)

\* opcode fetch (M1 cycle): counts in R
FetchOp(c) ==
  LET c1 == RdMem(c, c.r.PC)
  IN [c1 EXCEPT !.r.PC = W(@ + 1), !.r.R = IncR(@, 1)]

\* operand fetch: does not count in R
FetchB(c) ==
  LET c1 == RdMem(c, c.r.PC)
  IN [c1 EXCEPT !.r.PC = W(@ + 1)]

\* 16-bit operand, low byte first; c.v = the word
FetchW(c) ==
  LET c1 == FetchB(c)
      c2 == FetchB(c1)
  IN [c2 EXCEPT !.v = Mk16(c2.v, c1.v)]

\* 16-bit data read at a and W(a+1); c.v = the word
RdWord(c, a) ==
  LET c1 == RdMem(c, a)
      c2 == RdMem(c1, W(a + 1))
  IN [c2 EXCEPT !.v = Mk16(c2.v, c1.v)]

WrWord(c, a, w) == WrMem(WrMem(c, a, LoB(w)), W(a + 1), HiB(w))

\* push: high byte at SP-1, low byte at SP-2, SP lowered by 2
Push(c, w) ==
  LET sp == c.r.SP
      c1 == WrMem(c, W(sp - 1), HiB(w))
      c2 == WrMem(c1, W(sp - 2), LoB(w))
  IN [c2 EXCEPT !.r.SP = W(sp - 2)]

\* pop: low byte at SP, high byte at SP+1, SP raised by 2; c.v = the word
Pop(c) ==
  LET c1 == RdWord(c, c.r.SP)
  IN [c1 EXCEPT !.r.SP = W(@ + 2)]

----------------------------------------------------------------------------
(* register file access *)

R8 == <<"B", "C", "D", "E", "H", "L", "M", "A">>        \* r[0..7]; "M" = memory operand
HName(mode) == CASE mode = "HL" -> "H" [] mode = "IX" -> "IXH" [] mode = "IY" -> "IYH"
LName(mode) == CASE mode = "HL" -> "L" [] mode = "IX" -> "IXL" [] mode = "IY" -> "IYL"
\* r[i] when the instruction has no memory operand: H/L become the index halves
RName(i, mode) == IF i = 4 THEN HName(mode) ELSE IF i = 5 THEN LName(mode) ELSE R8[i + 1]

GetHL(c, mode) == Mk16(c.r[HName(mode)], c.r[LName(mode)])
SetHL(c, mode, w) == [c EXCEPT !.r[HName(mode)] = HiB(w), !.r[LName(mode)] = LoB(w)]

\* rp[0..3] = BC DE HL SP (HL subject to the index mode)
GetRP(c, p, mode) ==
  CASE p = 0 -> Mk16(c.r.B, c.r.C)
    [] p = 1 -> Mk16(c.r.D, c.r.E)
    [] p = 2 -> GetHL(c, mode)
    [] p = 3 -> c.r.SP
SetRP(c, p, mode, w) ==
  CASE p = 0 -> [c EXCEPT !.r.B = HiB(w), !.r.C = LoB(w)]
    [] p = 1 -> [c EXCEPT !.r.D = HiB(w), !.r.E = LoB(w)]
    [] p = 2 -> SetHL(c, mode, w)
    [] p = 3 -> [c EXCEPT !.r.SP = w]
\* rp2[0..3] = BC DE HL AF
GetRP2(c, p, mode) == IF p = 3 THEN Mk16(c.r.A, c.r.F) ELSE GetRP(c, p, mode)
SetRP2(c, p, mode, w) == IF p = 3 THEN [c EXCEPT !.r.A = HiB(w), !.r.F = LoB(w)]
                         ELSE SetRP(c, p, mode, w)

SetF(c, fl) == [c EXCEPT !.r.F = fl.f, !.u = fl.u]
Tag(c, t) == [c EXCEPT !.tag = t]

\* effective address of the memory operand: HL, or IX/IY + signed displacement
\* (the displacement byte is fetched as an operand).  c.v = the address.
EA(c, mode) ==
  IF mode = "HL" THEN [c EXCEPT !.v = GetHL(c, "HL")]
  ELSE LET c1 == FetchB(c)
       IN [c1 EXCEPT !.v = W(GetHL(c1, mode) + SExt(c1.v))]

----------------------------------------------------------------------------
(* unprefixed table (also executed under DD / FD with mode = IX / IY) *)

LdRR(c, y, z, mode) ==
  IF z = 6 THEN       \* LD r,(HL) / (IX+d): destination is the plain register
    LET c1 == EA(c, mode)  c2 == RdMem(c1, c1.v)
    IN Tag([c2 EXCEPT !.r[R8[y + 1]] = c2.v], "LD r,(m)")
  ELSE IF y = 6 THEN  \* LD (HL),r
    LET c1 == EA(c, mode)
    IN Tag(WrMem(c1, c1.v, c1.r[R8[z + 1]]), "LD (m),r")
  ELSE Tag([c EXCEPT !.r[RName(y, mode)] = c.r[RName(z, mode)]], "LD r,r")

AluR(c, y, z, mode) ==
  LET c1 == IF z = 6 THEN LET e == EA(c, mode) IN RdMem(e, e.v)
            ELSE [c EXCEPT !.v = c.r[RName(z, mode)]]
      res == Alu8(y, c1.r.A, c1.v, c1.r.F)
  IN Tag([c1 EXCEPT !.r.A = res.a, !.r.F = res.f, !.u = res.u], "ALU A,r")

AluN(c, y) ==
  LET c1 == FetchB(c)
      res == Alu8(y, c1.r.A, c1.v, c1.r.F)
  IN Tag([c1 EXCEPT !.r.A = res.a, !.r.F = res.f, !.u = res.u], "ALU A,n")

IncDecR(c, y, isDec, mode) ==
  IF y = 6 THEN
    LET c1 == EA(c, mode)  a == c1.v  c2 == RdMem(c1, a)
        res == IF isDec THEN Dec8(c2.v, c2.r.F) ELSE Inc8(c2.v, c2.r.F)
    IN Tag(SetF(WrMem(c2, a, res.v), res), "INC/DEC (m)")
  ELSE
    LET n == RName(y, mode)
        res == IF isDec THEN Dec8(c.r[n], c.r.F) ELSE Inc8(c.r[n], c.r.F)
    IN Tag(SetF([c EXCEPT !.r[n] = res.v], res), "INC/DEC r")

LdRN(c, y, mode) ==
  IF y = 6 THEN
    LET c1 == EA(c, mode)  a == c1.v  c2 == FetchB(c1)
    IN Tag(WrMem(c2, a, c2.v), "LD (m),n")
  ELSE LET c1 == FetchB(c)
       IN Tag([c1 EXCEPT !.r[RName(y, mode)] = c1.v], "LD r,n")

JumpRel(c, taken) ==     \* c.v = displacement byte, PC already past the instruction
  IF taken THEN [c EXCEPT !.r.PC = W(@ + SExt(c.v))] ELSE c

AccOps(c, y) ==          \* x = 0, z = 7
  LET a == c.r.A  f == c.r.F
      res == CASE y = 0 -> RotA("RLCA", a, f)
               [] y = 1 -> RotA("RRCA", a, f)
               [] y = 2 -> RotA("RLA", a, f)
               [] y = 3 -> RotA("RRA", a, f)
               [] y = 4 -> Daa8(a, f)
               [] y = 5 -> Cpl8(a, f)
               [] y = 6 -> Scf8(a, f)
               [] y = 7 -> Ccf8(a, f)
  IN Tag(SetF([c EXCEPT !.r.A = res.v], res), "ACC")

Main0(c, y, z, p, q, mode) ==
  CASE z = 0 ->
        (CASE y = 0 -> Tag(c, "NOP")
           [] y = 1 -> Tag([c EXCEPT !.r.A = c.r.A_, !.r.F = c.r.F_,
                                     !.r.A_ = c.r.A, !.r.F_ = c.r.F], "EX AF,AF'")
           [] y = 2 -> LET c1 == FetchB(c)  b == (c1.r.B - 1) % 256
                       IN Tag(JumpRel([c1 EXCEPT !.r.B = b], b # 0), "DJNZ")
           [] y = 3 -> Tag(JumpRel(FetchB(c), TRUE), "JR")
           [] OTHER -> LET c1 == FetchB(c) IN Tag(JumpRel(c1, Cond(y - 4, c1.r.F)), "JR cc"))
    [] z = 1 ->
         IF q = 0 THEN LET c1 == FetchW(c) IN Tag(SetRP(c1, p, mode, c1.v), "LD rp,nn")
         ELSE LET res == Add16(GetHL(c, mode), GetRP(c, p, mode), c.r.F)
              IN Tag(SetF(SetHL(c, mode, res.v), res), "ADD HL,rp")
    [] z = 2 ->
        (CASE q = 0 /\ p = 0 -> Tag(WrMem(c, Mk16(c.r.B, c.r.C), c.r.A), "LD (BC),A")
           [] q = 0 /\ p = 1 -> Tag(WrMem(c, Mk16(c.r.D, c.r.E), c.r.A), "LD (DE),A")
           [] q = 0 /\ p = 2 -> LET c1 == FetchW(c)
                                IN Tag(WrWord(c1, c1.v, GetHL(c1, mode)), "LD (nn),HL")
           [] q = 0 /\ p = 3 -> LET c1 == FetchW(c) IN Tag(WrMem(c1, c1.v, c1.r.A), "LD (nn),A")
           [] q = 1 /\ p = 0 -> LET c1 == RdMem(c, Mk16(c.r.B, c.r.C))
                                IN Tag([c1 EXCEPT !.r.A = c1.v], "LD A,(BC)")
           [] q = 1 /\ p = 1 -> LET c1 == RdMem(c, Mk16(c.r.D, c.r.E))
                                IN Tag([c1 EXCEPT !.r.A = c1.v], "LD A,(DE)")
           [] q = 1 /\ p = 2 -> LET c1 == FetchW(c)  c2 == RdWord(c1, c1.v)
                                IN Tag(SetHL(c2, mode, c2.v), "LD HL,(nn)")
           [] q = 1 /\ p = 3 -> LET c1 == FetchW(c)  c2 == RdMem(c1, c1.v)
                                IN Tag([c2 EXCEPT !.r.A = c2.v], "LD A,(nn)"))
    [] z = 3 ->
         Tag(SetRP(c, p, mode, IF q = 0 THEN Inc16(GetRP(c, p, mode))
                                        ELSE Dec16(GetRP(c, p, mode))), "INC/DEC rp")
    [] z = 4 -> IncDecR(c, y, FALSE, mode)
    [] z = 5 -> IncDecR(c, y, TRUE, mode)
    [] z = 6 -> LdRN(c, y, mode)
    [] z = 7 -> AccOps(c, y)

Call(c, taken) ==        \* c.v = target, PC already past the instruction
  IF taken THEN LET nn == c.v  c1 == Push(c, c.r.PC) IN [c1 EXCEPT !.r.PC = nn] ELSE c

Ret(c, taken) ==
  IF taken THEN LET c1 == Pop(c) IN [c1 EXCEPT !.r.PC = c1.v] ELSE c

Main3(c, y, z, p, q, mode) ==
  CASE z = 0 -> Tag(Ret(c, Cond(y, c.r.F)), "RET cc")
    [] z = 1 ->
         IF q = 0 THEN LET c1 == Pop(c) IN Tag(SetRP2(c1, p, mode, c1.v), "POP")
         ELSE (CASE p = 0 -> Tag(Ret(c, TRUE), "RET")
                [] p = 1 -> Tag([c EXCEPT !.r.B = c.r.B_, !.r.C = c.r.C_, !.r.D = c.r.D_,
                                          !.r.E = c.r.E_, !.r.H = c.r.H_, !.r.L = c.r.L_,
                                          !.r.B_ = c.r.B, !.r.C_ = c.r.C, !.r.D_ = c.r.D,
                                          !.r.E_ = c.r.E, !.r.H_ = c.r.H, !.r.L_ = c.r.L], "EXX")
                [] p = 2 -> Tag([c EXCEPT !.r.PC = GetHL(c, mode)], "JP (HL)")
                [] p = 3 -> Tag([c EXCEPT !.r.SP = GetHL(c, mode)], "LD SP,HL"))
    [] z = 2 -> LET c1 == FetchW(c)
                IN Tag(IF Cond(y, c1.r.F) THEN [c1 EXCEPT !.r.PC = c1.v] ELSE c1, "JP cc")
    [] z = 3 ->
        (CASE y = 0 -> LET c1 == FetchW(c) IN Tag([c1 EXCEPT !.r.PC = c1.v], "JP")
           [] y = 2 -> LET c1 == FetchB(c) IN Tag(PortOut(c1, c1.v, c1.r.A), "OUT (n),A")
           [] y = 3 -> LET c1 == FetchB(c)  c2 == PortIn(c1, c1.v)
                       IN Tag([c2 EXCEPT !.r.A = c2.v], "IN A,(n)")
           [] y = 4 -> LET c1 == RdWord(c, c.r.SP)  w == c1.v
                           c2 == WrWord(c1, c.r.SP, GetHL(c, mode))
                       IN Tag(SetHL(c2, mode, w), "EX (SP),HL")
           [] y = 5 -> Tag([c EXCEPT !.r.D = c.r.H, !.r.E = c.r.L,
                                     !.r.H = c.r.D, !.r.L = c.r.E], "EX DE,HL")
           [] y = 6 -> Tag([c EXCEPT !.r.IFF1 = FALSE, !.r.IFF2 = FALSE], "DI")
           [] y = 7 -> Tag([c EXCEPT !.r.IFF1 = TRUE, !.r.IFF2 = TRUE], "EI"))
    [] z = 4 -> LET c1 == FetchW(c) IN Tag(Call(c1, Cond(y, c1.r.F)), "CALL cc")
    [] z = 5 ->
         IF q = 0 THEN Tag(Push(c, GetRP2(c, p, mode)), "PUSH")
         ELSE LET c1 == FetchW(c) IN Tag(Call(c1, TRUE), "CALL")       \* p = 0 only
    [] z = 6 -> AluN(c, y)
    [] z = 7 -> LET c1 == Push(c, c.r.PC) IN Tag([c1 EXCEPT !.r.PC = y * 8], "RST")

Halt(c) == Tag([c EXCEPT !.r.PC = W(@ - 1), !.halt = TRUE], "HALT")

\* one instruction of the unprefixed table; op is already fetched; op is not a prefix
ExecMain(c, op, mode) ==
  LET x == op \div 64
      y == (op \div 8) % 8
      z == op % 8
      p == y \div 2
      q == y % 2
  IN CASE x = 0 -> Main0(c, y, z, p, q, mode)
       [] x = 1 -> IF op = 118 THEN Halt(c) ELSE LdRR(c, y, z, mode)
       [] x = 2 -> AluR(c, y, z, mode)
       [] x = 3 -> Main3(c, y, z, p, q, mode)

----------------------------------------------------------------------------
(* CB table and DDCB / FDCB *)

\* operation of a CB-table opcode on value x with flags fin:
\* [v = new value, wr = whether it is written back, f, u]
CBOp(op, x, fin, isMem) ==
  LET xx == op \div 64  y == (op \div 8) % 8
  IN CASE xx = 0 -> LET r == Rot8(y, x, fin) IN [v |-> r.v, wr |-> TRUE, f |-> r.f, u |-> r.u]
       [] xx = 1 -> LET r == Bit8(y, x, fin, isMem) IN [v |-> x, wr |-> FALSE, f |-> r.f, u |-> r.u]
       [] xx = 2 -> [v |-> Res8(y, x), wr |-> TRUE, f |-> fin, u |-> 0]
       [] xx = 3 -> [v |-> Set8(y, x), wr |-> TRUE, f |-> fin, u |-> 0]

ExecCB(c) ==       \* c: CB fetched
  LET c1 == FetchOp(c)  op == c1.v  z == op % 8
  IN IF z = 6 THEN
       LET a == GetHL(c1, "HL")  c2 == RdMem(c1, a)
           res == CBOp(op, c2.v, c2.r.F, TRUE)
           c3 == IF res.wr THEN WrMem(c2, a, res.v) ELSE c2
       IN Tag(SetF(c3, res), "CB (HL)")
     ELSE
       LET n == R8[z + 1]
           res == CBOp(op, c1.r[n], c1.r.F, FALSE)
       IN Tag(SetF([c1 EXCEPT !.r[n] = res.v], res), "CB r")

\* DD CB d op / FD CB d op.  d is fetched as an operand, op as an opcode
\* (the implementation counts it in R; silicon does not: ralt).
\* copy = TRUE models silicon's undocumented "also copy the result to r[z]".
ExecIdxCB(c, mode, copy) ==     \* c: DD/FD and CB fetched
  LET c1 == FetchB(c)  d == c1.v
      c2 == [FetchOp(c1) EXCEPT !.ralt = TRUE]  op == c2.v  z == op % 8
      a == W(GetHL(c2, mode) + SExt(d))
      c3 == RdMem(c2, a)
      res == CBOp(op, c3.v, c3.r.F, TRUE)
      c4 == IF res.wr THEN WrMem(c3, a, res.v) ELSE c3
      c5 == IF copy /\ res.wr /\ z # 6 THEN [c4 EXCEPT !.r[R8[z + 1]] = res.v] ELSE c4
  IN Tag(SetF(c5, res), "DDCB")

----------------------------------------------------------------------------
(* ED table *)

BlockLd(c, dir, rep) ==
  LET hl == GetHL(c, "HL")  de == Mk16(c.r.D, c.r.E)  bc1 == W(Mk16(c.r.B, c.r.C) - 1)
      c1 == RdMem(c, hl)  byte == c1.v
      c2 == WrMem(c1, de, byte)
      fl == LdiFlags(c.r.A, byte, bc1, c.r.F)
      c3 == SetF(SetRP(SetRP(SetRP(c2, 2, "HL", W(hl + dir)), 1, "HL", W(de + dir)), 0, "HL", bc1), fl)
  IN Tag(IF rep /\ bc1 # 0 THEN [c3 EXCEPT !.r.PC = W(@ - 2)] ELSE c3, "LDI/LDD/R")

BlockCp(c, dir, rep) ==
  LET hl == GetHL(c, "HL")  bc1 == W(Mk16(c.r.B, c.r.C) - 1)
      c1 == RdMem(c, hl)  byte == c1.v
      fl == CpiFlags(c.r.A, byte, bc1, c.r.F)
      c3 == SetF(SetRP(SetRP(c1, 2, "HL", W(hl + dir)), 0, "HL", bc1), fl)
  IN Tag(IF rep /\ bc1 # 0 /\ ~fl.z THEN [c3 EXCEPT !.r.PC = W(@ - 2)] ELSE c3, "CPI/CPD/R")

BlockIn(c, dir, rep) ==
  LET hl == GetHL(c, "HL")  b1 == (c.r.B - 1) % 256
      c1 == PortIn(c, c.r.C)  byte == c1.v
      c2 == WrMem(c1, hl, byte)
      fl == IoBlockFlags(b1, byte, (c.r.C + dir) % 256, c.r.F)
      c3 == SetF([SetRP(c2, 2, "HL", W(hl + dir)) EXCEPT !.r.B = b1], fl)
  IN Tag(IF rep /\ b1 # 0 THEN [c3 EXCEPT !.r.PC = W(@ - 2)] ELSE c3, "INI/IND/R")

BlockOut(c, dir, rep) ==
  LET hl == GetHL(c, "HL")  b1 == (c.r.B - 1) % 256
      c1 == RdMem(c, hl)  byte == c1.v
      c2 == PortOut(c1, c.r.C, byte)
      hl1 == W(hl + dir)
      fl == IoBlockFlags(b1, byte, LoB(hl1), c.r.F)
      c3 == SetF([SetRP(c2, 2, "HL", hl1) EXCEPT !.r.B = b1], fl)
  IN Tag(IF rep /\ b1 # 0 THEN [c3 EXCEPT !.r.PC = W(@ - 2)] ELSE c3, "OUTI/OUTD/R")

RetN(c)  == LET c1 == Ret(c, TRUE)
            IN Tag([c1 EXCEPT !.r.IFF1 = c.r.IFF2, !.hc[1] = @ + 1], "RETN")
\* copyIff = FALSE: what the implementation does; TRUE: silicon
RetI(c, copyIff) ==
            LET c1 == Ret(c, TRUE)
            IN Tag([c1 EXCEPT !.r.IFF1 = IF copyIff THEN c.r.IFF2 ELSE @, !.hc[2] = @ + 1], "RETI")

\* ED-table opcodes the Z80 documents (the 58 the implementation supports)
EDDocumented(op) ==
  LET x == op \div 64  y == (op \div 8) % 8  z == op % 8
  IN \/ x = 1 /\ z \in {0, 1} /\ y # 6
     \/ x = 1 /\ z \in {2, 3}
     \/ op \in {68, 69, 77, 70, 86, 94, 71, 79, 87, 95, 103, 111}
     \/ x = 2 /\ y >= 4 /\ z <= 3

\* the instruction itself (documented opcodes, and silicon's behaviour for the
\* undocumented mirrors: IN (C), OUT (C),0, NEG/RETN/IM mirrors, NOPs)
ExecEDop(c, op) ==
  LET x == op \div 64  y == (op \div 8) % 8  z == op % 8  p == y \div 2  q == y % 2
  IN IF x = 1 THEN
       CASE z = 0 -> LET c1 == PortIn(c, c.r.C)  fl == InFlags(c1.v, c1.r.F)
                     IN Tag(SetF(IF y = 6 THEN c1 ELSE [c1 EXCEPT !.r[R8[y + 1]] = c1.v], fl), "IN r,(C)")
         [] z = 1 -> Tag(PortOut(c, c.r.C, IF y = 6 THEN 0 ELSE c.r[R8[y + 1]]), "OUT (C),r")
         [] z = 2 -> LET res == IF q = 0 THEN Sbc16(GetHL(c, "HL"), GetRP(c, p, "HL"), c.r.F)
                                         ELSE Adc16(GetHL(c, "HL"), GetRP(c, p, "HL"), c.r.F)
                     IN Tag(SetF(SetHL(c, "HL", res.v), res), "ADC/SBC HL,rp")
         [] z = 3 -> LET c1 == FetchW(c)
                     IN IF q = 0 THEN Tag(WrWord(c1, c1.v, GetRP(c1, p, "HL")), "LD (nn),rp")
                        ELSE LET c2 == RdWord(c1, c1.v) IN Tag(SetRP(c2, p, "HL", c2.v), "LD rp,(nn)")
         [] z = 4 -> LET res == Neg8(c.r.A, c.r.F)
                     IN Tag(SetF([c EXCEPT !.r.A = res.v], res), "NEG")
         [] z = 5 -> IF y = 1 THEN RetI(c, FALSE) ELSE RetN(c)
         [] z = 6 -> Tag([c EXCEPT !.r.IM = CASE y \in {0, 1, 4, 5} -> 0
                                               [] y \in {2, 6} -> 1
                                               [] y \in {3, 7} -> 2], "IM")
         [] z = 7 ->
             (CASE y = 0 -> Tag([c EXCEPT !.r.I = c.r.A], "LD I,A")
                [] y = 1 -> Tag([c EXCEPT !.r.R = c.r.A], "LD R,A")
                [] y = 2 -> Tag(SetF([c EXCEPT !.r.A = c.r.I], IrFlags(c.r.I, c.r.IFF2, c.r.F)), "LD A,I")
                [] y = 3 -> Tag(SetF([c EXCEPT !.r.A = c.r.R], IrFlags(c.r.R, c.r.IFF2, c.r.F)), "LD A,R")
                [] y = 4 -> LET a == GetHL(c, "HL")  c1 == RdMem(c, a)
                                res == Rrd8(c1.r.A, c1.v, c1.r.F)
                            IN Tag(SetF([WrMem(c1, a, res.m) EXCEPT !.r.A = res.a], res), "RRD")
                [] y = 5 -> LET a == GetHL(c, "HL")  c1 == RdMem(c, a)
                                res == Rld8(c1.r.A, c1.v, c1.r.F)
                            IN Tag(SetF([WrMem(c1, a, res.m) EXCEPT !.r.A = res.a], res), "RLD")
                [] OTHER -> Tag(c, "ED NOP"))
     ELSE IF x = 2 /\ y >= 4 /\ z <= 3 THEN
       LET dir == IF y % 2 = 0 THEN 1 ELSE -1
           rep == y >= 6
       IN CASE z = 0 -> BlockLd(c, dir, rep)
            [] z = 1 -> BlockCp(c, dir, rep)
            [] z = 2 -> BlockIn(c, dir, rep)
            [] z = 3 -> BlockOut(c, dir, rep)
     ELSE Tag(c, "ED NOP")

----------------------------------------------------------------------------
(* what the implementation supports, and the latitude for what it does not *)

IdxImplemented(op) ==
  \/ op \in {9, 25, 41, 57, 33, 34, 35, 36, 37, 38, 42, 43, 44, 45, 46, 52, 53, 54,
             225, 227, 229, 233, 249}
  \/ (op >= 64 /\ op <= 127 /\ op # 118)
  \/ (op >= 128 /\ op <= 191)

IsPrefix(op) == op \in {203, 221, 237, 253}

\* "consumed": the bytes the decoder had to read are skipped, nothing else changes
Consumed(c) == Tag(c, "UNSUPPORTED consumed")

(***************************************************************************)
(* ExecSet(c): the set of allowed outcomes of executing the instruction at  *)
(* PC.  A singleton for every supported encoding (one Step = one whole      *)
(* instruction).  For encodings the emulator does not implement:            *)
(*   (a) consumed, (b) silicon's behaviour where modelled, (c) for DD/FD    *)
(*   followed by a byte outside the index table, only the prefix consumed.  *)
(***************************************************************************)
ExecIdx(c, mode) ==    \* c: DD or FD fetched
  LET c1 == FetchOp(c)  op == c1.v
  IN IF op = 203 THEN
       LET cz == FetchOp(FetchB(c1))    \* to inspect the fourth byte
       IN IF cz.v % 8 = 6 THEN {ExecIdxCB(c1, mode, FALSE)}
          ELSE {Consumed([cz EXCEPT !.ralt = TRUE]), ExecIdxCB(c1, mode, TRUE)}
     ELSE IF IdxImplemented(op) THEN {ExecMain(c1, op, mode)}
     ELSE IF IsPrefix(op) THEN {Consumed(c1), Tag(c, "PREFIX only")}
     ELSE {Consumed(c1), Tag(c, "PREFIX only"), ExecMain(c1, op, mode)}

ExecED(c) ==           \* c: ED fetched
  LET c1 == FetchOp(c)  op == c1.v
  IN IF EDDocumented(op) THEN
       IF op = 77 /\ c1.r.IFF1 # c1.r.IFF2 THEN {RetI(c1, FALSE), RetI(c1, TRUE)}
       ELSE {ExecEDop(c1, op)}
     ELSE {Consumed(c1), ExecEDop(c1, op)}

ExecSet(c) ==
  LET c1 == FetchOp(c)  op == c1.v
  IN CASE op = 203 -> {ExecCB(c1)}
       [] op = 237 -> ExecED(c1)
       [] op = 221 -> ExecIdx(c1, "IX")
       [] op = 253 -> ExecIdx(c1, "IY")
       [] OTHER    -> {ExecMain(c1, op, "HL")}

\* is the encoding at PC one the emulator implements?  (for catalogues)
Implemented(c) ==
  LET c1 == FetchOp(c)  op == c1.v
  IN CASE op = 203 -> TRUE
       [] op = 237 -> EDDocumented(FetchOp(c1).v)
       [] op \in {221, 253} ->
            LET c2 == FetchOp(c1)
            IN IF c2.v = 203 THEN FetchOp(FetchB(c2)).v % 8 = 6 ELSE IdxImplemented(c2.v)
       [] OTHER -> TRUE

\* a fresh per-Step context: clears the access logs and scratch fields
StartStep(c) == [c EXCEPT !.rd = <<>>, !.wr = <<>>, !.pio = <<>>, !.u = 0,
                          !.ralt = FALSE, !.tag = "", !.v = 0]

NoOvl == [n |-> 0, start |-> 0, data |-> <<>>]
=============================================================================
