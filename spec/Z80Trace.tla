------------------------------ MODULE Z80Trace ------------------------------
(***************************************************************************)
(* Trace validation: executions recorded from the real koron-go/z80 code    *)
(* (ndjson, one event per line) are checked against the specification.      *)
(*                                                                           *)
(* Events                                                                    *)
(*   i  init  : the harness built a CPU: registers, devices, placed cells,  *)
(*              pending request                                              *)
(*   s  step  : one CPU.Step returned: registers, HALT, bus log, memory     *)
(*              diff, handler calls, whether the request is still pending   *)
(*   q  raise : the environment stored a request in CPU.Interrupt           *)
(*   p  poke  : the environment wrote memory cells                          *)
(*                                                                           *)
(* A step event is accepted when the logged result is one of StepSet(c).    *)
(* When it is not, the line and the projections ("aspects") that disagree   *)
(* are recorded in `bad`, the model adopts the logged state and the rest of *)
(* the trace is still checked.  The driver maps aspects to properties.      *)
(***************************************************************************)
EXTENDS Z80Run, Z80Block, Json, IOUtils

TraceLog == ndJsonDeserialize(IOEnv.TRACE)
MaxBad == 40

VARIABLES l,     \* next line of TraceLog
          c,     \* the model's CPU/bus context
          bad,   \* sequence of [line, aspects] for rejected events
          cov,   \* instruction-class tag -> number of accepted steps
          rs,    \* progress of the Run call being expanded (silent steps)
          slot,  \* a context remembered by a "mark" event (C07: final state of the undisturbed run)
          kf,    \* occurrences of known findings (named deviations), capped
          done
vars == <<l, c, bad, cov, rs, slot, kf, done>>

RegOrder == <<"A", "F", "B", "C", "D", "E", "H", "L", "A_", "F_", "B_", "C_", "D_", "E_", "H_", "L_",
              "IXH", "IXL", "IYH", "IYL", "SP", "PC", "I", "R">>

RegsOf(a) == [A |-> a[1], F |-> a[2], B |-> a[3], C |-> a[4], D |-> a[5], E |-> a[6], H |-> a[7], L |-> a[8],
              A_ |-> a[9], F_ |-> a[10], B_ |-> a[11], C_ |-> a[12], D_ |-> a[13], E_ |-> a[14],
              H_ |-> a[15], L_ |-> a[16], IXH |-> a[17], IXL |-> a[18], IYH |-> a[19], IYL |-> a[20],
              SP |-> a[21], PC |-> a[22], I |-> a[23], R |-> a[24],
              IFF1 |-> a[25] = 1, IFF2 |-> a[26] = 1, IM |-> a[27]]

PendOf(p) == IF Len(p) = 0 THEN None
             ELSE IF p[1] = 0 THEN [t |-> "nmi"]
             ELSE [t |-> "int", d |-> SubSeq(p, 2, Len(p))]

CellsOf(cells) == [a \in {cells[i][1] : i \in 1 .. Len(cells)} |->
                     LET i == CHOOSE i \in 1 .. Len(cells) : cells[i][1] = a IN cells[i][2]]

\* later entries win (a diff lists each address once; placed cells may repeat)
Overlay(cells, m) == CellsOf(cells) @@ m

InitCtx(ev) ==
  [r |-> RegsOf(ev.r), m |-> CellsOf(ev.cells),
   dev |-> [mk |-> ev.dev[1], seed |-> ev.dev[2], val |-> ev.dev[3], len |-> ev.dev[4],
            img |-> IF "img" \in DOMAIN ev THEN ev.img ELSE <<>>],
   io |-> [ik |-> ev.io[1], seed |-> ev.io[2], len |-> ev.io[3]], iom |-> CellsOf(ev.iocells),
   nin |-> IF "nin" \in DOMAIN ev THEN ev.nin ELSE 0, seen |-> <<>>,
   rd |-> <<>>, wr |-> <<>>, pio |-> <<>>, halt |-> ev.h = 1, hc |-> <<0, 0>>,
   \* which notification handlers the host installed: bit 0 RETN, bit 1 RETI (a missing one counts nothing)
   hcfg |-> IF "hcfg" \in DOMAIN ev THEN ev.hcfg ELSE 3,
   ovl |-> NoOvl, v |-> 0, u |-> 0, ralt |-> FALSE, tag |-> "", pend |-> PendOf(ev.pend),
   aei |-> FALSE, rslack |-> 0]

----------------------------------------------------------------------------
(* comparison of one allowed outcome o with a logged step event ev,         *)
(* projection by projection; prev = the context before the Step             *)

FlagsAgree(fs, fr, u) == ((fs ^^ fr) & (255 - u)) = 0

RegsBad(o, lr) ==
  \/ \E n \in {"A", "B", "C", "D", "E", "H", "L", "A_", "F_", "B_", "C_", "D_", "E_", "H_", "L_",
               "IXH", "IXL", "IYH", "IYL", "SP", "PC", "I"} : o.r[n] # lr[n]
  \/ ~FlagsAgree(o.r.F, lr.F, o.u)
  \/ o.r.IFF1 # lr.IFF1 \/ o.r.IFF2 # lr.IFF2 \/ o.r.IM # lr.IM

MemBad(prev, o, md) ==
  LET logged == CellsOf(md)
      touched == {o.wr[i][1] : i \in 1 .. Len(o.wr)}
  IN \/ \E a \in DOMAIN logged : Peek(o, a) # logged[a]
     \/ \E a \in touched : a \notin DOMAIN logged /\ ~IsVolatile(o, a) /\ Peek(o, a) # Peek(prev, a)

Outs(pio) == SelectSeq(pio, LAMBDA e : e[1] = 1)

\* handler notifications the host can see: only those of installed handlers
HcSeen(prev, d) == <<IF prev.hcfg % 2 = 1 THEN d[1] ELSE 0, IF prev.hcfg \div 2 = 1 THEN d[2] ELSE 0>>

Aspects(prev, o, ev) ==
  LET lr == RegsOf(ev.r)
  IN (IF RegsBad(o, lr) THEN {"regs"} ELSE {})
     \cup (IF lr.R \notin RAllowed(o) \/ o.r.I # lr.I THEN {"ir"} ELSE {})
     \cup (IF o.halt # (ev.h = 1) THEN {"halt"} ELSE {})
     \cup (IF MemBad(prev, o, ev.md) THEN {"mem"} ELSE {})
     \* ("ioc": the bundled array port device was attached without the recording wrapper - no port log; its
     \*  contents after the Step are compared instead, aspect "out")
     \cup (IF "ioc" \notin DOMAIN ev /\ Outs(o.pio) # Outs(ev.pio) THEN {"out"} ELSE {})
     \cup (IF "ioc" \in DOMAIN ev
              /\ \E p \in 1 .. Len(ev.ioc) : ev.ioc[p] # (IF (p - 1) \in DOMAIN o.iom THEN o.iom[p - 1] ELSE 0)
           THEN {"out"} ELSE {})
     \* ("bare": the real memory object was attached without the recording wrapper - no access log)
     \cup (IF "bare" \notin DOMAIN ev /\ ~SameBag(o.rd, ev.rd) THEN {"rd"} ELSE {})
     \cup (IF "bare" \notin DOMAIN ev /\ ~SameBag(o.wr, ev.wr) THEN {"wr"} ELSE {})
     \cup (IF "ioc" \notin DOMAIN ev /\ o.pio # ev.pio THEN {"pio"} ELSE {})
     \cup (IF HcSeen(prev, <<o.hc[1] - prev.hc[1], o.hc[2] - prev.hc[2]>>) # ev.hc THEN {"hc"} ELSE {})
     \cup (IF o.pend # PendOf(ev.pend) THEN {"pend"} ELSE {})

\* the outcome that explains the event best (no failed aspect if one exists)
Best(prev, outs, ev) ==
  IF Cardinality(outs) = 1 THEN CHOOSE o \in outs : TRUE
  ELSE CHOOSE o \in outs : \A o2 \in outs :
         Cardinality(Aspects(prev, o, ev)) <= Cardinality(Aspects(prev, o2, ev))

\* adopt the logged state (a no-op when the event was accepted, apart from
\* undefined flag bits and the R latitude)
Adopt(prev, o, ev) ==
  LET outs == Outs(ev.pio)
  IN [prev EXCEPT !.r = RegsOf(ev.r), !.m = Overlay(ev.md, @), !.halt = ev.h = 1,
                  !.pend = PendOf(ev.pend),
                  !.hc = <<@[1] + ev.hc[1], @[2] + ev.hc[2]>>,
                  !.iom = IF "ioc" \in DOMAIN ev
                          THEN [p \in 0 .. (Len(ev.ioc) - 1) |-> ev.ioc[p + 1]]
                          ELSE IF prev.io.ik = "dumb"
                          THEN [p \in {outs[i][2] : i \in {j \in 1 .. Len(outs) : outs[j][2] < prev.io.len}} |->
                                  LET i == CHOOSE i \in 1 .. Len(outs) :
                                             outs[i][2] = p /\ \A j \in (i + 1) .. Len(outs) : outs[j][2] # p
                                  IN outs[i][3]] @@ @
                          ELSE @,
                  !.nin = @ + Ins(ev.pio), !.seen = IF prev.dev.mk = "volatile" /\ "rd" \in DOMAIN ev
                           THEN LET vs == {a \in {ev.rd[i] : i \in 1 .. Len(ev.rd)} : a >= prev.dev.val}
                                IN [a \in vs \cup DOMAIN @ |->
                                      (IF a \in DOMAIN @ THEN @[a] ELSE 0)
                                      + Cardinality({i \in 1 .. Len(ev.rd) : ev.rd[i] = a})]
                           ELSE @,
                  !.aei = (o.tag = "EI"), !.tag = o.tag]

Bump(f, k) == IF k \in DOMAIN f THEN [f EXCEPT ![k] = @ + 1] ELSE (k :> 1) @@ f

----------------------------------------------------------------------------
Ev == TraceLog[l]
IsEv(e) == l <= Len(TraceLog) /\ Ev.e = e /\ l' = l + 1 /\ done' = FALSE /\ UNCHANGED rs
KeepSK == UNCHANGED <<slot, kf>>

TraceInit ==
  /\ l = 1 /\ c = [tag |-> "uninitialised"] /\ bad = <<>> /\ cov = <<>> /\ done = FALSE /\ rs = [on |-> FALSE] /\ slot = [tag |-> "empty"] /\ kf = <<>>

EvInit == IsEv("i") /\ c' = InitCtx(Ev) /\ UNCHANGED <<bad, cov>> /\ KeepSK

EvStep ==
  /\ IsEv("s") /\ KeepSK
  /\ LET outs == StepSet(c)
         o == Best(c, outs, Ev)
         asp == Aspects(c, o, Ev)
     IN /\ c' = Adopt(c, o, Ev)
        /\ IF asp = {} THEN /\ bad' = bad
                            /\ cov' = Bump(cov, o.tag)
           ELSE /\ bad' = IF Len(bad) < MaxBad
                          THEN Append(bad, [line |-> l, asp |-> asp, tag |-> o.tag,
                                            pc |-> o.r.PC, f |-> o.r.F, u |-> o.u])
                          ELSE bad
                /\ cov' = Bump(cov, "REJECTED")

\* a Step that panicked or hung: never a behaviour of the specification (C12)
IsHangOfRun == Ev.e = "x" /\ Ev.what = "hang" /\ "run" \in DOMAIN Ev
EvPanic ==
  /\ IsEv("x") /\ ~IsHangOfRun /\ UNCHANGED c /\ KeepSK
  /\ bad' = IF Len(bad) < MaxBad
            THEN Append(bad, [line |-> l, asp |-> IF Ev.what = "request-mutated" THEN {"mutated"} ELSE {"panic"},
                              tag |-> Ev.what, pc |-> 0, f |-> 0, u |-> 0]) ELSE bad
  /\ cov' = Bump(cov, "REJECTED")

\* C11: the FD form run from the IX/IY-exchanged state mirrors the DD form, with an
\* identical access sequence; neither form reads or writes the other index register
SwapIdx(a) == [i \in 1 .. 27 |-> CASE i = 17 -> a[19] [] i = 18 -> a[20] [] i = 19 -> a[17] [] i = 20 -> a[18]
                                    [] OTHER -> a[i]]
MirrorOK(dd, fd) ==
  /\ fd.pre = SwapIdx(dd.pre) /\ fd.post = SwapIdx(dd.post) /\ fd.h = dd.h
  /\ fd.rd = dd.rd /\ fd.wr = dd.wr /\ fd.pio = dd.pio
  \* no device saw the other index register changed at any access of the Step
  /\ dd.moved = 0 /\ fd.moved = 0
  \* and a device that looks at CPU.PC during its callbacks sees the same values for both forms
  /\ dd.pcs = fd.pcs
\* x2 = the same run with the other index register (positions i1, i2) changed
NoInterf(x, x2, i1, i2) ==
  /\ x2.post[i1] = x2.pre[i1] /\ x2.post[i2] = x2.pre[i2]
  /\ x.post[i1] = x.pre[i1] /\ x.post[i2] = x.pre[i2]
  /\ \A i \in 1 .. 27 : i \notin {i1, i2} => x2.post[i] = x.post[i]
  /\ x2.h = x.h /\ x2.rd = x.rd /\ x2.wr = x.wr /\ x2.pio = x.pio
EvMirror ==
  /\ IsEv("m") /\ UNCHANGED c /\ KeepSK
  /\ LET \* a pair whose instruction reads its own prefix byte as data legitimately differs
         \* in that byte ("apart from the prefix byte itself"): not comparable
         selfRead == Count(Ev.dd.rd, Ev.dd.pre[22]) > 1 \/ Count(Ev.fd.rd, Ev.fd.pre[22]) > 1
         \* latch[k]: the pair again on a paging latch (the k-th access of the Step replaces CPU.Memory): both forms
         \* must agree on which memory object saw which access
         latch == "latch" \in DOMAIN Ev => \A k \in 1 .. Len(Ev.latch) : MirrorOK(Ev.latch[k][1], Ev.latch[k][2])
         asp == (IF selfRead \/ (MirrorOK(Ev.dd, Ev.fd) /\ latch) THEN {} ELSE {"mirror"})
                \cup (IF NoInterf(Ev.dd, Ev.dd2, 19, 20) /\ NoInterf(Ev.fd, Ev.fd2, 17, 18) THEN {} ELSE {"interf"})
     IN IF asp = {} THEN bad' = bad /\ cov' = Bump(cov, "MIRROR pair")
        ELSE /\ bad' = IF Len(bad) < MaxBad
                       THEN Append(bad, [line |-> l, asp |-> asp, tag |-> "MIRROR pair", pc |-> 0, f |-> 0, u |-> 0])
                       ELSE bad
             /\ cov' = Bump(cov, "REJECTED")

----------------------------------------------------------------------------
(* r  run : one CPU.Run call returned.  The specification computes the run  *)
(* states the stop rule allows (RunResults) - or, for a cancelled run, the  *)
(* Step boundaries with the logged number of bus accesses (Boundaries) -    *)
(* and the logged result must be one of them.                               *)
RunFuel == 30000
SchedOf(s) == IF Len(s) = 0 THEN NoSched ELSE [at |-> s[1], pend |-> PendOf(SubSeq(s, 2, Len(s)))]
BpOf(ev) == {ev.bp[i] : i \in 1 .. Len(ev.bp)}

RunAspects(prev, x, ev) ==
  LET lr == RegsOf(ev.r)  o == x.c
      logged == CellsOf(ev.md)
  IN (IF RegsBad(o, lr) THEN {"regs"} ELSE {})
     \cup (IF lr.R \notin RunRAllowed(x) \/ o.r.I # lr.I THEN {"ir"} ELSE {})
     \cup (IF o.halt # (ev.h = 1) THEN {"halt"} ELSE {})
     \cup (IF \/ \E a \in DOMAIN logged : Peek(o, a) # logged[a]
              \/ \E a \in DOMAIN o.m : a \notin DOMAIN logged /\ Peek(o, a) # Peek(prev, a)
           THEN {"mem"} ELSE {})
     \cup (IF x.pio # ev.pio THEN {"pio"} ELSE {})
     \cup (IF Outs(x.pio) # Outs(ev.pio) THEN {"out"} ELSE {})
     \cup (IF "bare" \notin DOMAIN ev /\ x.n # ev.nacc THEN {"nacc"} ELSE {})
     \cup (IF "con" \in DOMAIN ev
             /\ (ev.con # [i \in 1 .. Len(SelectSeq(ev.pio, LAMBDA e : e[1] = 1 /\ e[2] = 0)) |->
                             SelectSeq(ev.pio, LAMBDA e : e[1] = 1 /\ e[2] = 0)[i][3]]
                 \* port reads and writes to other ports "only produce a warning": some warning when there was
                 \* such traffic, none otherwise (how many lines are logged is not pinned)
                 \/ (ev.warn > 0) # (Len(SelectSeq(ev.pio, LAMBDA e : e[1] = 0 \/ e[2] # 0)) > 0))
           THEN {"console"} ELSE {})
     \cup (IF HcSeen(prev, <<o.hc[1] - prev.hc[1], o.hc[2] - prev.hc[2]>>) # ev.hc THEN {"hc"} ELSE {})
     \cup (IF o.pend # PendOf(ev.pend) THEN {"pend"} ELSE {})

\* The iteration is done with silent TLC steps (one per Step of the run, the line is
\* not consumed) so that long runs cost one small state each instead of a deep recursion.
NoRun == [on |-> FALSE]
RunTarget == IF Ev.err = "ctx" THEN Ev.nacc ELSE -1     \* cancelled runs: stop at the logged access count

RunBegin ==
  /\ l <= Len(TraceLog) /\ ~rs.on /\ ~done /\ Ev.e = "r"
  /\ rs' = [on |-> TRUE, S |-> {RunStartB(c, SchedOf(Ev.sched), BpOf(Ev),
                                           IF Len(Ev.bpswap) = 0 THEN [at |-> 0]
                                           ELSE [at |-> Ev.bpswap[1],
                                                 set |-> {Ev.bpswap[i] : i \in 2 .. Len(Ev.bpswap)}])},
            D |-> {}, fuel |-> RunFuel]
  /\ UNCHANGED <<l, c, bad, cov, done, slot, kf>>

\* states still to be advanced: those short of the logged access count (cancelled run), or
\* within reach of it (a branch of the specification's nondeterminism that has already made
\* more bus accesses than the real run plus a margin can never match it and is dropped,
\* which also bounds the expansion by the length of the real run)
RunGo == IF RunTarget < 0 THEN (IF "bare" \in DOMAIN Ev THEN rs.S ELSE {x \in rs.S : x.n < Ev.nacc + 64})
         ELSE {x \in rs.S : x.n < RunTarget}

RunIter ==
  /\ rs.on /\ RunGo # {} /\ rs.fuel > 0
  /\ LET bp == BpOf(Ev)
         nx == UNION {StepAcc(x) : x \in RunGo}
         fin == {x \in nx : Stops(x, bp) # "no"}
         hits == IF RunTarget < 0 THEN {} ELSE {x \in rs.S : x.n = RunTarget}
     IN rs' = [on |-> TRUE, S |-> nx \ fin, fuel |-> rs.fuel - 1,
               D |-> IF RunTarget < 0 THEN rs.D \cup fin ELSE rs.D \cup hits]
  /\ UNCHANGED <<l, c, bad, cov, done, slot, kf>>

RunEnd ==
  /\ rs.on /\ (RunGo = {} \/ rs.fuel = 0)
  /\ l' = l + 1 /\ done' = FALSE /\ rs' = NoRun /\ KeepSK
  /\ LET bp == BpOf(Ev)
         all == IF RunTarget < 0 THEN rs.D ELSE rs.D \cup {x \in rs.S : x.n = RunTarget}
         cands == IF Ev.err = "ctx" THEN all ELSE {x \in all : Stops(x, bp) = Ev.err}
         best == IF cands # {}
                 THEN CHOOSE x \in cands : \A y \in cands :
                        Cardinality(RunAspects(c, x, Ev)) <= Cardinality(RunAspects(c, y, Ev))
                 ELSE IF all # {} THEN CHOOSE x \in all : TRUE ELSE RunStart(c, NoSched)
         asp == IF cands # {} THEN RunAspects(c, best, Ev)
                ELSE IF all # {} THEN {"err"} \cup RunAspects(c, best, Ev)
                ELSE IF rs.fuel = 0 THEN {"fuel"}
                ELSE IF Ev.err = "ctx" THEN {"boundary"} ELSE {"err"}
     IN /\ c' = [c EXCEPT !.r = RegsOf(Ev.r), !.m = Overlay(Ev.md, @), !.halt = Ev.h = 1,
                          !.pend = PendOf(Ev.pend), !.hc = <<@[1] + Ev.hc[1], @[2] + Ev.hc[2]>>,
                          !.nin = @ + Ins(Ev.pio), !.aei = best.c.aei, !.tag = "RUN"]
        /\ IF asp = {} THEN bad' = bad /\ cov' = Bump(Bump(cov, "RUN " \o Ev.err), "RUN steps " \o
                                                       (IF best.steps = 1 THEN "1" ELSE IF best.steps < 10 THEN "2-9" ELSE "10+"))
           ELSE /\ bad' = IF Len(bad) < MaxBad
                          THEN Append(bad, [line |-> l, asp |-> asp, tag |-> "RUN " \o Ev.err,
                                            pc |-> best.c.r.PC, f |-> best.c.r.F, u |-> best.steps])
                          ELSE bad
                /\ cov' = Bump(cov, "REJECTED")

\* A Run that did not return (watchdog).  It is a violation of totality only for a program
\* that halts: the specification runs the program itself (bounded) and the hang is rejected
\* exactly when every branch of the specification stops.
HangFuel == 4000
HangBegin ==
  /\ l <= Len(TraceLog) /\ IsHangOfRun /\ ~rs.on /\ ~done
  /\ rs' = [on |-> TRUE, hang |-> TRUE,
            S |-> {RunStartB(c, SchedOf(Ev.run.sched), {Ev.run.bp[i] : i \in 1 .. Len(Ev.run.bp)}, [at |-> 0])},
            D |-> {}, fuel |-> HangFuel]
  /\ UNCHANGED <<l, c, bad, cov, done, slot, kf>>
HangIter ==
  /\ rs.on /\ "hang" \in DOMAIN rs /\ rs.S # {} /\ rs.fuel > 0
  /\ LET bp == {Ev.run.bp[i] : i \in 1 .. Len(Ev.run.bp)}
         nx == UNION {StepAcc(x) : x \in rs.S}
         fin == {x \in nx : Stops(x, bp) # "no"}
     IN rs' = [rs EXCEPT !.S = nx \ fin, !.D = rs.D \cup fin, !.fuel = rs.fuel - 1]
  /\ UNCHANGED <<l, c, bad, cov, done, slot, kf>>
HangEnd ==
  /\ rs.on /\ "hang" \in DOMAIN rs /\ (rs.S = {} \/ rs.fuel = 0)
  /\ l' = l + 1 /\ done' = FALSE /\ rs' = NoRun /\ KeepSK /\ UNCHANGED c
  /\ IF rs.S = {} /\ rs.D # {}
     THEN /\ bad' = IF Len(bad) < MaxBad
                    THEN Append(bad, [line |-> l, asp |-> {"hang"}, tag |-> "hang", pc |-> 0, f |-> 0, u |-> 0]) ELSE bad
          /\ cov' = Bump(cov, "REJECTED")
     ELSE bad' = bad /\ cov' = Bump(cov, "hang of a program that does not halt in the specification (ignored)")

EvRun == RunBegin \/ ("hang" \notin DOMAIN rs /\ RunIter) \/ ("hang" \notin DOMAIN rs /\ RunEnd)
         \/ HangBegin \/ HangIter \/ HangEnd

\* a Run that did not return (watchdog) - never a behaviour of a halting program (C12)
EvRaise == IsEv("q") /\ c' = [c EXCEPT !.pend = PendOf(Ev.pend)] /\ UNCHANGED <<bad, cov>> /\ KeepSK

EvPoke == IsEv("p") /\ c' = [c EXCEPT !.m = Overlay(Ev.cells, @)] /\ UNCHANGED <<bad, cov>> /\ KeepSK

----------------------------------------------------------------------------
(* C07: transparency.  mark remembers the final state of the undisturbed   *)
(* run; cmp relates the final state of an interrupted run to it: same      *)
(* registers (minus R), flags, IFF state, mode, halted indication, and     *)
(* memory outside the stack bytes below SP.                                *)
----------------------------------------------------------------------------
(* C09: w = a repeating block instruction was stepped until PC left it; the  *)
(* logged number of Steps, registers, memory diff and port log must equal   *)
(* the closed form Z80Block!Whole of the state before.                      *)
EvWhole ==
  /\ IsEv("w") /\ KeepSK
  /\ LET lr == RegsOf(Ev.r)
         ok == IF ~Applicable(c) THEN TRUE
               ELSE LET w == Whole(c)
                        k == BlockKind(c)
                    IN /\ Ev.steps = w.steps /\ lr.PC = w.pc
                       /\ Mk16(lr.H, lr.L) = w.hl /\ Mk16(lr.D, lr.E) = w.de /\ lr.B = w.b
                       /\ (k \in {"LDIR", "LDDR", "CPIR", "CPDR"} => Mk16(lr.B, lr.C) = w.bc)
                       /\ (k \notin {"LDIR", "LDDR", "CPIR", "CPDR"} => lr.C = c.r.C)
                       /\ lr.A = w.a /\ FlagsAgree(w.f, lr.F, w.u)
                       /\ lr.R = IncR(c.r.R, 2 * (w.steps % 64))
                       /\ \A n \in {"A_", "F_", "B_", "C_", "D_", "E_", "H_", "L_", "IXH", "IXL", "IYH", "IYL",
                                     "SP", "I", "IFF1", "IFF2", "IM"} : lr[n] = c.r[n]
                       /\ Ev.pio = w.pio
                       /\ \A i \in 1 .. Len(Ev.md) : Ev.md[i][1] \in w.written /\ Ev.md[i][2] = FinalAt(c, Ev.md[i][1])
                       /\ Cardinality({a \in w.written : FinalAt(c, a) # Peek(c, a)}) = Len(Ev.md)
     IN /\ c' = [c EXCEPT !.r = lr, !.m = Overlay(IF Len(Ev.md) > 4096 THEN <<>> ELSE Ev.md, @),
                          !.nin = @ + Ins(Ev.pio), !.tag = "WHOLE"]
        /\ IF ok THEN bad' = bad /\ cov' = Bump(cov, IF Applicable(c) THEN "WHOLE " \o BlockKind(c) ELSE "WHOLE n/a")
           ELSE /\ bad' = IF Len(bad) < MaxBad
                          THEN Append(bad, [line |-> l, asp |-> {"whole"}, tag |-> "WHOLE " \o BlockKind(c),
                                            pc |-> Whole(c).pc, f |-> Whole(c).f, u |-> Whole(c).steps])
                          ELSE bad
                /\ cov' = Bump(cov, "REJECTED")

----------------------------------------------------------------------------
(* C18: cpm = after a program made BDOS calls on the mini CP/M machine and  *)
(* jumped to 0.  calls = <<fn, arg>>...: fn 2 prints the byte arg, fn 9     *)
(* prints the bytes at address arg up to (excluding) the first '$'.  The    *)
(* console writer must have received exactly that, byte for byte in order;  *)
(* every port read and every write to a port other than 0 is one warning;   *)
(* the machine is halted at FF03 with SP as before.                         *)
RECURSIVE StrAt(_, _, _)
StrAt(x, a, fuel) == IF fuel = 0 \/ Peek(x, a) = 36 THEN <<>> ELSE <<Peek(x, a)>> \o StrAt(x, W(a + 1), fuel - 1)
RECURSIVE Expected(_, _, _)
Expected(x, calls, i) ==
  IF i > Len(calls) THEN <<>>
  ELSE (IF calls[i][1] = 2 THEN <<calls[i][2]>>
        ELSE IF calls[i][1] = 9 THEN StrAt(x, calls[i][2], 70000) ELSE <<>>) \o Expected(x, calls, i + 1)
EvCPM ==
  /\ IsEv("cpm") /\ UNCHANGED c /\ KeepSK
  /\ LET asp == (IF Ev.con = Expected(c, Ev.calls, 1) /\ ("stale" \notin DOMAIN Ev \/ Ev.stale = 0)
                 THEN {} ELSE {"console"})
                \cup (IF c.r.PC = 65283 /\ c.halt /\ c.r.SP = Ev.sp0 THEN {} ELSE {"cpm-return"})
     IN IF asp = {} THEN bad' = bad /\ cov' = Bump(cov, "CPM program")
        ELSE /\ bad' = IF Len(bad) < MaxBad
                       THEN Append(bad, [line |-> l, asp |-> asp, tag |-> "CPM program", pc |-> c.r.PC, f |-> 0, u |-> 0])
                       ELSE bad
             /\ cov' = Bump(cov, "REJECTED")

\* host actions with no effect on the machine state: a value copy of the CPU replaces the CPU
\* ("fork"), the console writer is reconfigured ("con"); and one that loads the registers ("regs":
\* the next program is started on the same CPU - the halted indication stays as it is)
EvFork == IsEv("fork") /\ UNCHANGED <<c, bad, cov>> /\ KeepSK
EvCon  == IsEv("con") /\ UNCHANGED <<c, bad, cov>> /\ KeepSK
EvRegs == IsEv("regs") /\ c' = [c EXCEPT !.r = RegsOf(Ev.r)] /\ UNCHANGED <<bad, cov>> /\ KeepSK

EvMark == IsEv("mark") /\ slot' = c /\ UNCHANGED <<c, bad, cov, kf>>

\* Mode 0 is not transparent in this implementation (finding F3: the supplied RST/CALL
\* pushes PC + the bytes fetched).  Such runs are recorded in kf, not in bad; the driver
\* reports them as KNOWN-FINDING only while known_findings.json lists F3 as known.
EvCmp ==
  /\ IsEv("cmp") /\ UNCHANGED c /\ slot' = slot
  /\ LET ok == Ev.parked = 1 /\ Transparent(slot, c)
     IN IF ok THEN bad' = bad /\ kf' = kf /\ cov' = Bump(cov, "TRANSPARENT " \o Ev.kind)
        ELSE IF Ev.kind = "im0"
        THEN /\ bad' = bad /\ cov' = Bump(cov, "F3 non-transparent im0")
             /\ kf' = IF Len(kf) < 5 THEN Append(kf, [line |-> l, id |-> "F3", k |-> Ev.k]) ELSE kf
        ELSE /\ kf' = kf /\ cov' = Bump(cov, "REJECTED")
             /\ bad' = IF Len(bad) < MaxBad
                       THEN Append(bad, [line |-> l, asp |-> {"transp"}, tag |-> "TRANSP " \o Ev.kind,
                                         pc |-> slot.r.PC, f |-> slot.r.F, u |-> Ev.k])
                       ELSE bad

Done ==
  /\ l = Len(TraceLog) + 1 /\ ~done
  /\ PrintT(<<"TRACE-RESULT", ToJson([consumed |-> l - 1, bad |-> bad, cov |-> cov, kf |-> kf])>>)
  /\ done' = TRUE /\ UNCHANGED <<l, c, bad, cov, rs, slot, kf>>

TraceNext == EvInit \/ EvStep \/ EvRun \/ EvRaise \/ EvPoke \/ EvMark \/ EvCmp \/ EvWhole \/ EvCPM \/ EvPanic \/ EvMirror \/ EvFork \/ EvCon \/ EvRegs \/ Done
TraceSpec == TraceInit /\ [][TraceNext]_vars

\* every line was consumed (a line no action can take would stop the run early)
TraceAccepted == TLCGet("stats").diameter - 2 = Len(TraceLog)
=============================================================================
