
