------------------------------ MODULE ZexTables ------------------------------
(***************************************************************************)
(* C17: the layout of the canonical zexdoc / zexall program images and     *)
(* what it means for the Go tables to be exactly their cases.              *)
(*                                                                          *)
(* The image is loaded at 0100h.  It starts with JP start (C3 lo hi); 12   *)
(* bytes into start stands LD HL,tests (21 lo hi); tests is a table of     *)
(* little-endian pointers terminated by 0000.  A record is 1 flag-mask     *)
(* byte, 3 x 20 state-vector bytes (base, increment, shift), 4 CRC bytes   *)
(* (most significant first) and the description up to '$' (padded with '.' *)
(* in the image).                                                           *)
(***************************************************************************)
EXTENDS Integers, Sequences, Json, IOUtils, TLC

Dump == JsonDeserialize(IOEnv.DUMP)
Img == Dump.img
Cases == Dump.cases

At(a) == Img[a - 256 + 1]                      \* byte at address a
Word(a) == At(a) + 256 * At(a + 1)
InImg(a) == a >= 256 /\ a - 256 + 1 <= Len(Img)

StartOK == At(256) = 195                       \* C3: JP start
Start == Word(257)
LoadTestsOK == At(Start + 12) = 33             \* 21: LD HL,tests
Tests == Word(Start + 13)

RECURSIVE PtrsFrom(_)
PtrsFrom(a) == IF Word(a) = 0 THEN <<>> ELSE <<Word(a)>> \o PtrsFrom(a + 2)
Ptrs == PtrsFrom(Tests)

RECURSIVE DescFrom(_)
DescFrom(a) == IF At(a) = 36 THEN <<>> ELSE <<At(a)>> \o DescFrom(a + 1)      \* up to '$'
\* descriptions coincide modulo the '.' padding of the image
RECURSIVE StripDots(_)
StripDots(s) == IF s # <<>> /\ s[Len(s)] = 46 THEN StripDots(SubSeq(s, 1, Len(s) - 1)) ELSE s
DescOK(p, d) == LET img == DescFrom(p + 65) IN img = d \/ StripDots(img) = StripDots(d)

RecordDiffs(i) ==     \* byte offsets (0..64, 65 = description) where case i differs from record i
  LET p == Ptrs[i]
  IN {k \in 0 .. 64 : At(p + k) # Cases[i].b[k + 1]} \cup (IF DescOK(p, Cases[i].d) THEN {} ELSE {65})

Result ==
  IF ~(StartOK /\ LoadTestsOK) THEN [ok |-> FALSE, why |-> "layout", records |-> 0, diffs |-> <<>>]
  ELSE IF Len(Ptrs) # Len(Cases)
       THEN [ok |-> FALSE, why |-> "count", records |-> Len(Ptrs), cases |-> Len(Cases), diffs |-> <<>>]
  ELSE LET bad == {i \in 1 .. Len(Ptrs) : RecordDiffs(i) # {}}
       IN [ok |-> bad = {}, why |-> "bytes", records |-> Len(Ptrs),
           diffs |-> [i \in bad |-> RecordDiffs(i)]]

ASSUME PrintT(<<"ZEX-RESULT", ToJson(Result)>>)
=============================================================================
