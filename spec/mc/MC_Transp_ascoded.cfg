CONSTANTS
  Int0 = "ascoded"
  EiDelay = FALSE
