----------------------------- MODULE MC_AluLaws -----------------------------
(***************************************************************************)
(* Keeping the oracle honest: laws relating independently written operators*)
(* of Z80Alu, checked by TLC over COMPLETE 8-bit domains (ASSUME-level).   *)
(* A false law is a bug in the specification (exit 2), never a VIOLATION.  *)
(***************************************************************************)
EXTENDS Z80Alu, TLC

Flip(f, m) == f ^^ m
Bnd16 == {0, 1, 2, 15, 16, 255, 256, 257, 4095, 4096, 4097, 32767, 32768, 32769,
          61440, 65279, 65280, 65534, 65535, 4660, 43981, 30583, 34952}
BCD == {t * 16 + o : t \in 0 .. 9, o \in 0 .. 9}
Dec(b) == (b \div 16) * 10 + (b % 16)
ToBCD(n) == (n \div 10) * 16 + (n % 10)

\* Bitwise (Java override) agrees with the arithmetic meaning of AND/OR/XOR
LawBitwise == \A a \in Byte, x \in Byte : \A n \in 0 .. 7 :
     /\ BitOf(a & x, n) = BitOf(a, n) * BitOf(x, n)
     /\ BitOf(a | x, n) = IF BitOf(a, n) + BitOf(x, n) > 0 THEN 1 ELSE 0
     /\ BitOf(a ^^ x, n) = (BitOf(a, n) + BitOf(x, n)) % 2

\* subtraction is addition of the one's complement with inverted carries
LawSubIsAddComplement == \A a \in Byte, x \in Byte, c \in 0 .. 1 :
     LET s == Sub8(a, x, c)  t == Add8(a, 255 - x, 1 - c)
     IN s.v = t.v /\ s.f = Flip(t.f, FC + FH) + FN

LawNegIsSubFromZero == \A a \in Byte, fin \in {0, 255, 1, 170} :
     Neg8(a, fin).v = Sub8(0, a, 0).v /\ Neg8(a, fin).f = Sub8(0, a, 0).f

LawIncDec == \A x \in Byte, fin \in Byte :
     /\ Inc8(x, fin).v = Add8(x, 1, 0).v
     /\ Inc8(x, fin).f = (Add8(x, 1, 0).f - Keep(Add8(x, 1, 0).f, FC)) + Keep(fin, FC)
     /\ Dec8(x, fin).v = Sub8(x, 1, 0).v
     /\ Dec8(x, fin).f = (Sub8(x, 1, 0).f - Keep(Sub8(x, 1, 0).f, FC)) + Keep(fin, FC)

LawCp == \A a \in Byte, x \in Byte, fin \in {0, 1, 254, 255} :
     LET cp == Alu8(7, a, x, fin)  sb == Alu8(2, a, x, fin)
     IN cp.a = a /\ Keep(cp.f, 255 - F5 - F3) = Keep(sb.f, 255 - F5 - F3)
        /\ Keep(cp.f, F5 + F3) = Keep(x, F5 + F3)

\* F' depends on F only through the declared bits (all 256 F on a sample of operands)
SampleB == {0, 1, 9, 10, 15, 16, 127, 128, 129, 153, 154, 240, 254, 255, 85, 170}
LawAluReadsOnlyCarry == \A y \in 0 .. 7, a \in SampleB, x \in SampleB, fin \in Byte :
     Alu8(y, a, x, fin) = Alu8(y, a, x, fin % 2)
LawRotReadsOnlyCarry == \A y \in 0 .. 7, x \in Byte, fin \in Byte :
     Rot8(y, x, fin) = Rot8(y, x, fin % 2)
LawDaaReads == \A a \in Byte, fin \in Byte :
     Daa8(a, fin) = Daa8(a, Keep(fin, FC + FH + FN))

\* 16-bit arithmetic = the byte-serial composition silicon performs
Serial16(isSub, a, x, c) ==
     LET lo == IF isSub THEN Sub8(LoB(a), LoB(x), c) ELSE Add8(LoB(a), LoB(x), c)
         c2 == lo.f % 2
         hi == IF isSub THEN Sub8(HiB(a), HiB(x), c2) ELSE Add8(HiB(a), HiB(x), c2)
     IN [v |-> Mk16(hi.v, lo.v),
         f |-> (hi.f - Keep(hi.f, FZ)) + IfF(hi.v = 0 /\ lo.v = 0, FZ)]
LawAdc16Serial == \A a \in Bnd16, x \in Bnd16, c \in 0 .. 1 :
     /\ Adc16(a, x, c).v = Serial16(FALSE, a, x, c).v
     /\ Adc16(a, x, c).f = Serial16(FALSE, a, x, c).f
     /\ Sbc16(a, x, c).v = Serial16(TRUE, a, x, c).v
     /\ Sbc16(a, x, c).f = Serial16(TRUE, a, x, c).f
LawAdd16Serial == \A a \in Bnd16, x \in Bnd16, fin \in {0, 1, 196, 197, 254, 255} :
     LET s == Serial16(FALSE, a, x, 0)  r == Add16(a, x, fin)
     IN r.v = s.v /\ r.f = Keep(fin, FS + FZ + FPV) + Keep(s.f, F5 + F3 + FH + FC)
LawIncDec16 == \A x \in Word : Dec16(Inc16(x)) = x /\ Inc16(Dec16(x)) = x
                               /\ Inc16(x) \in Word /\ Dec16(x) \in Word
                               /\ (x # 65535 => Inc16(x) = x + 1) /\ Inc16(65535) = 0

\* DAA means decimal: after ADD/ADC (SUB/SBC) of packed BCD operands the
\* accumulator holds the BCD digits of the decimal sum (difference) and C the
\* decimal carry (borrow)
LawDaaDecimalAdd == \A a \in BCD, b \in BCD, c \in 0 .. 1 :
     LET s == Add8(a, b, c)  d == Daa8(s.v, s.f)  n == Dec(a) + Dec(b) + c
     IN d.v = ToBCD(n % 100) /\ (d.f % 2 = 1) = (n > 99) /\ BitOf(d.f, 1) = 0
LawDaaDecimalSub == \A a \in BCD, b \in BCD, c \in 0 .. 1 :
     LET s == Sub8(a, b, c)  d == Daa8(s.v, s.f)  n == Dec(a) - Dec(b) - c
     IN d.v = ToBCD(n % 100) /\ (d.f % 2 = 1) = (n < 0) /\ BitOf(d.f, 1) = 1
LawDaaFlags == \A a \in Byte, fin \in Byte :
     LET d == Daa8(a, fin)
     IN /\ Keep(d.f, FS + FZ + F5 + F3) = SZ(d.v) + X53(d.v)
        /\ (BitOf(d.f, 2) = 1) = ParityEven(d.v)
        /\ Keep(d.f, FN) = Keep(fin, FN)

\* rotates
LawRotInverse == \A x \in Byte, c \in 0 .. 1 :
     /\ Rot8(1, Rot8(0, x, c).v, c).v = x
     /\ Rot8(0, Rot8(1, x, c).v, c).v = x
     /\ LET l == Rot8(2, x, c) IN Rot8(3, l.v, l.f).v = x /\ Rot8(3, l.v, l.f).f % 2 = c
     /\ Rot8(7, Rot8(4, x, c).v, c).v = x % 128
     /\ Rot8(6, x, c).v = Rot8(4, x, c).v + 1
     /\ RotA("RLCA", x, c).v = Rot8(0, x, c).v /\ RotA("RRCA", x, c).v = Rot8(1, x, c).v
     /\ RotA("RLA", x, c).v = Rot8(2, x, c).v /\ RotA("RRA", x, c).v = Rot8(3, x, c).v
     /\ RotA("RLA", x, c).f % 2 = Rot8(2, x, c).f % 2
RECURSIVE RlN(_, _, _)
RlN(n, x, c) == IF n = 0 THEN <<x, c>>
                ELSE LET r == Rot8(2, x, c) IN RlN(n - 1, r.v, r.f % 2)
LawRlPeriod9 == \A x \in Byte, c \in 0 .. 1 : RlN(9, x, c) = <<x, c>>
LawRotAKeeps == \A a \in Byte, fin \in Byte, k \in {"RLCA", "RRCA", "RLA", "RRA"} :
     LET r == RotA(k, a, fin)
     IN Keep(r.f, FS + FZ + FPV) = Keep(fin, FS + FZ + FPV) /\ Keep(r.f, FH + FN) = 0
        /\ Keep(r.f, F5 + F3) = X53(r.v)

LawParityXor == \A x \in Byte, y \in Byte :
     ParityEven(x ^^ y) = (ParityEven(x) = ParityEven(y))

LawRldRrd == \A a \in Byte, m \in Byte :
     LET l == Rld8(a, m, 0)  r == Rrd8(l.a, l.m, 0)
     IN r.a = a /\ r.m = m /\ l.a \div 16 = a \div 16

LawBitSetRes == \A b \in 0 .. 7, x \in Byte :
     /\ Set8(b, x) = (x | P2(b))
     /\ Res8(b, x) = (x & (255 - P2(b)))
     /\ (BitOf(Bit8(b, x, 0, FALSE).f, 6) = 1) = ((x & P2(b)) = 0)
     /\ BitOf(Bit8(b, Set8(b, x), 0, FALSE).f, 6) = 0
     /\ BitOf(Bit8(b, Res8(b, x), 0, FALSE).f, 6) = 1
     /\ \A fin \in {0, 1, 255} : Bit8(b, x, fin, FALSE).f % 2 = fin % 2

LawCond == \A f \in Byte, k \in 0 .. 3 : Cond(2 * k, f) = ~Cond(2 * k + 1, f)
LawIncR == \A r \in Byte :
     /\ IncR(r, 128) = r /\ IncR(r, 1) \div 128 = r \div 128
     /\ IncR(r, 2) = IncR(IncR(r, 1), 1) /\ IncR(127, 1) = 0 /\ IncR(255, 1) = 128

\* overflow by the sign rule = overflow of the signed sum
Sg(x) == IF x >= 128 THEN x - 256 ELSE x
LawOverflowSigned == \A a \in Byte, x \in Byte, c \in 0 .. 1 :
     /\ (BitOf(Add8(a, x, c).f, 2) = 1) = (Sg(a) + Sg(x) + c > 127 \/ Sg(a) + Sg(x) + c < -128)
     /\ (BitOf(Sub8(a, x, c).f, 2) = 1) = (Sg(a) - Sg(x) - c > 127 \/ Sg(a) - Sg(x) - c < -128)

ASSUME L01 == LawBitwise
ASSUME L02 == LawSubIsAddComplement
ASSUME L03 == LawNegIsSubFromZero
ASSUME L04 == LawIncDec
ASSUME L05 == LawCp
ASSUME L06 == LawAluReadsOnlyCarry
ASSUME L07 == LawRotReadsOnlyCarry
ASSUME L08 == LawDaaReads
ASSUME L09 == LawAdc16Serial
ASSUME L10 == LawAdd16Serial
ASSUME L11 == LawIncDec16
ASSUME L12 == LawDaaDecimalAdd
ASSUME L13 == LawDaaDecimalSub
ASSUME L14 == LawDaaFlags
ASSUME L15 == LawRotInverse
ASSUME L16 == LawRlPeriod9
ASSUME L17 == LawRotAKeeps
ASSUME L18 == LawParityXor
ASSUME L19 == LawRldRrd
ASSUME L20 == LawBitSetRes
ASSUME L21 == LawCond
ASSUME L22 == LawIncR
ASSUME L23 == LawOverflowSigned
ASSUME PrintT(<<"ALU-LAWS-OK", 23>>)
=============================================================================
