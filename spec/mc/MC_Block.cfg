
