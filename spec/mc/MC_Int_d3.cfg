SPECIFICATION Spec
CONSTANTS MaxOps = 3
PROPERTIES MaskableOnlyIfEnabled NmiAlways RefusedStays Dispatch Handlers FlipFlops NoInstrOnAccept
CHECK_DEADLOCK FALSE
