------------------------------ MODULE MC_Decode ------------------------------
(***************************************************************************)
(* Consistency of the instruction-set specification itself, checked by TLC *)
(* over all 7 x 256 decode points x extreme and mixed contexts:            *)
(*  - ExecSet is total: it evaluates (no CASE gap) and is non-empty;       *)
(*  - it is a singleton exactly for the encodings the emulator implements, *)
(*    of which there are 930 (252 + 256 + 58 + 150 + 150 + 32 + 32);       *)
(*  - every outcome is well typed (bytes in 0..255, words in 0..65535);    *)
(*  - the bytes of the instruction are read first, consecutively from PC,  *)
(*    each once, 1..4 of them, and PC ends right after them unless the     *)
(*    instruction transfers control, halts or repeats;                     *)
(*  - an outcome only touches the alternate set, I, IFF1/IFF2, IM, the     *)
(*    halted indication and the handler counters when its class says so.   *)
(***************************************************************************)
EXTENDS Z80Int, FiniteSets

RegsOf(b, w) == [A |-> b, F |-> b, B |-> b, C |-> b, D |-> b, E |-> b, H |-> b, L |-> b,
                 A_ |-> b, F_ |-> b, B_ |-> b, C_ |-> b, D_ |-> b, E_ |-> b, H_ |-> b, L_ |-> b,
                 IXH |-> b, IXL |-> b, IYH |-> b, IYL |-> b, SP |-> w, PC |-> w, I |-> b, R |-> b,
                 IFF1 |-> b = 255, IFF2 |-> b # 255, IM |-> b % 3]
Mixed == [A |-> 18, F |-> 165, B |-> 0, C |-> 255, D |-> 127, E |-> 128, H |-> 127, L |-> 255,
          A_ |-> 1, F_ |-> 2, B_ |-> 3, C_ |-> 4, D_ |-> 5, E_ |-> 6, H_ |-> 7, L_ |-> 8,
          IXH |-> 255, IXL |-> 254, IYH |-> 0, IYL |-> 1, SP |-> 1, PC |-> 65534, I |-> 128, R |-> 127,
          IFF1 |-> TRUE, IFF2 |-> FALSE, IM |-> 2]
Ctx(r, mk, val) ==
  [r |-> r, m |-> <<>>, dev |-> [mk |-> mk, seed |-> 9, val |-> val, len |-> 65536, img |-> <<>>],
   io |-> [ik |-> "hash", seed |-> 3, len |-> 0], iom |-> <<>>, nin |-> 0, seen |-> <<>>, rd |-> <<>>, wr |-> <<>>, pio |-> <<>>,
   halt |-> FALSE, hc |-> <<0, 0>>, ovl |-> NoOvl, v |-> 0, u |-> 0, ralt |-> FALSE, tag |-> "",
   pend |-> None, aei |-> FALSE, rslack |-> 0]
Ctxs == {Ctx(RegsOf(0, 0), "const", 0), Ctx(RegsOf(255, 65535), "const", 255), Ctx(Mixed, "hash", 0),
         Ctx([Mixed EXCEPT !.PC = 256, !.SP = 32768], "hash", 0)}
\* (the contexts keep data pointers away from PC..PC+3 so that a data read is not mistaken for a fetch;
\*  RegsOf(..) contexts put every pointer ON the instruction, where only totality and typing are checked)
AliasFree == {Ctx(Mixed, "hash", 0), Ctx([Mixed EXCEPT !.PC = 256, !.SP = 32768], "hash", 0)}

Bytes(table, op) ==
  CASE table = 0 -> <<op, 52, 18, 5>>
    [] table = 1 -> <<203, op, 52, 18>>
    [] table = 2 -> <<237, op, 52, 18>>
    [] table = 3 -> <<221, op, 5, 52, 18>>
    [] table = 4 -> <<253, op, 5, 52, 18>>
    [] table = 5 -> <<221, 203, 5, op, 52>>
    [] table = 6 -> <<253, 203, 5, op, 52>>
With(c, code) == [c EXCEPT !.m = [a \in {W(c.r.PC + i - 1) : i \in 1 .. Len(code)} |->
                                    code[CHOOSE i \in 1 .. Len(code) : W(c.r.PC + i - 1) = a]]]
Points == (0 .. 6) \X (0 .. 255)
IsPrefixPoint(t, op) == (t = 0 /\ op \in {203, 221, 237, 253}) \/ (t \in {3, 4} /\ op = 203)

ByteRegs == {"A", "F", "B", "C", "D", "E", "H", "L", "A_", "F_", "B_", "C_", "D_", "E_", "H_", "L_",
             "IXH", "IXL", "IYH", "IYL", "I", "R"}
WellTyped(o) == /\ \A n \in ByteRegs : o.r[n] \in 0 .. 255
                /\ o.r.SP \in 0 .. 65535 /\ o.r.PC \in 0 .. 65535
                /\ o.r.IFF1 \in BOOLEAN /\ o.r.IFF2 \in BOOLEAN /\ o.u \in 0 .. 255
                /\ \A i \in 1 .. Len(o.rd) : o.rd[i] \in 0 .. 65535
                /\ \A i \in 1 .. Len(o.wr) : o.wr[i][1] \in 0 .. 65535 /\ o.wr[i][2] \in 0 .. 255
                /\ \A i \in 1 .. Len(o.pio) : o.pio[i][2] \in 0 .. 255 /\ o.pio[i][3] \in 0 .. 255
                /\ \A a \in DOMAIN o.m : o.m[a] \in 0 .. 255

\* number of leading reads that walk consecutively from pc
RECURSIVE Lead(_, _, _)
Lead(rd, pc, i) == IF i <= Len(rd) /\ rd[i] = W(pc + i - 1) THEN Lead(rd, pc, i + 1) ELSE i - 1
Transfers == {"DJNZ", "JR", "JR cc", "RET cc", "RET", "JP (HL)", "JP cc", "JP", "CALL cc", "CALL", "RST", "HALT",
              "LDI/LDD/R", "CPI/CPD/R", "INI/IND/R", "OUTI/OUTD/R", "RETN", "RETI", "PREFIX only"}
FetchOK(c, o) ==
  LET k == Lead(o.rd, c.r.PC, 1)
  IN /\ k \in 1 .. 4
     /\ (o.tag \notin Transfers => o.r.PC = W(c.r.PC + k))

\* the parts of the state only particular classes may touch
Untouched(c, o) ==
  /\ (o.tag \notin {"EX AF,AF'", "EXX"} => \A n \in {"A_", "F_", "B_", "C_", "D_", "E_", "H_", "L_"} : o.r[n] = c.r[n])
  /\ (o.tag # "LD I,A" => o.r.I = c.r.I)
  /\ (o.tag \notin {"EI", "DI", "RETN", "RETI"} => o.r.IFF1 = c.r.IFF1 /\ o.r.IFF2 = c.r.IFF2)
  /\ (o.tag # "IM" => o.r.IM = c.r.IM)
  /\ (o.tag # "HALT" => o.halt = c.halt)
  /\ (o.tag \notin {"RETN", "RETI"} => o.hc = c.hc)
  /\ (o.tag \notin {"IN A,(n)", "IN r,(C)", "OUT (n),A", "OUT (C),r", "INI/IND/R", "OUTI/OUTD/R"} => o.pio = <<>>)
  /\ o.pend = c.pend

PointOK(c0, t, op) ==
  LET c == StartStep(With(c0, Bytes(t, op)))
      outs == ExecSet(c)
  IN /\ outs # {}
     \* (RETI is implemented; it has two allowed outcomes when IFF1 # IFF2: silicon copies IFF2, the code does not)
     /\ (~IsPrefixPoint(t, op) /\ ~(t = 2 /\ op = 77) => ((Cardinality(outs) = 1) <=> Implemented(c)))
     /\ \A o \in outs : WellTyped(o) /\ (c0 \in AliasFree => FetchOK(c, o)) /\ Untouched(c, o)

AllOK == \A c0 \in Ctxs, p \in Points : PointOK(c0, p[1], p[2])
NImplemented == Cardinality({p \in Points : ~IsPrefixPoint(p[1], p[2])
                                              /\ Implemented(StartStep(With(Ctx(Mixed, "hash", 0), Bytes(p[1], p[2]))))})
ASSUME AllOK
ASSUME NImplemented = 930
ASSUME PrintT(<<"DECODE-OK", Cardinality(Points) * Cardinality(Ctxs), NImplemented>>)
=============================================================================
