------------------------------ MODULE MC_Transp ------------------------------
(***************************************************************************)
(* C07 on the specification.  A library of small register-transparent      *)
(* programs (straight-line code, DJNZ loop, CALL/RET, overlapping LDIR,     *)
(* CPIR, OTIR, a DI..EI section, final HALT) x EVERY Step boundary k x the  *)
(* request kinds {NMI, IM 1, IM 2 even/odd vector, IM 0 RST 38h, IM 0       *)
(* CALL nn}: the final state with the request raised before Step k is       *)
(* Transparent-related to the final state of the undisturbed run.           *)
(*                                                                           *)
(* Int0 = "z80": the Z80 rule for mode 0 - the theorem holds.               *)
(* Int0 = "ascoded": the implementation's overlay mechanism - TLC must find *)
(* the counterexample (finding F3): evidence that the model can see it.     *)
(***************************************************************************)
EXTENDS Z80Run, FiniteSets

CONSTANTS Int0, EiDelay      \* EiDelay: after EI a pending request waits one instruction (silicon) or not (the code)

Regs0 == [A |-> 10, F |-> 85, B |-> 17, C |-> 34, D |-> 51, E |-> 68, H |-> 64, L |-> 16,
          A_ |-> 1, F_ |-> 2, B_ |-> 3, C_ |-> 4, D_ |-> 5, E_ |-> 6, H_ |-> 7, L_ |-> 8,
          IXH |-> 80, IXL |-> 32, IYH |-> 96, IYL |-> 48, SP |-> 61440, PC |-> 256, I |-> 127, R |-> 10,
          IFF1 |-> FALSE, IFF2 |-> FALSE, IM |-> 1]
Ctx0 == [r |-> Regs0, m |-> <<>>, dev |-> [mk |-> "const", seed |-> 0, val |-> 0, len |-> 65536],
         io |-> [ik |-> "hash", seed |-> 5, len |-> 0], iom |-> <<>>, nin |-> 0, seen |-> <<>>, rd |-> <<>>, wr |-> <<>>, pio |-> <<>>,
         halt |-> FALSE, hc |-> <<0, 0>>, ovl |-> NoOvl, v |-> 0, u |-> 0, ralt |-> FALSE, tag |-> "",
         pend |-> None, aei |-> FALSE, rslack |-> 0]

At(org, code) == [a \in {org + i - 1 : i \in 1 .. Len(code)} |-> code[a - org + 1]]
\* handlers: 0038 PUSH AF; INC A; POP AF; EI; RETI - 0066 PUSH AF; DEC A; POP AF; RETN -
\* 0048 (mode 2, via the table at 7F00) PUSH AF; PUSH BC; INC B; POP BC; POP AF; EI; RETI
Handlers == At(56, <<245, 60, 241, 251, 237, 77>>) @@ At(102, <<245, 61, 241, 237, 69>>)
            @@ At(72, <<245, 197, 4, 193, 241, 251, 237, 77>>)
            @@ [a \in 32512 .. 32767 |-> IF a % 2 = 0 THEN 72 ELSE 0]
Data == [a \in 24832 .. 24847 |-> (a % 13) + 1]

Progs == <<
  \* EI; LD B,3; INC A; DJNZ -3; ADD A,B; HALT
  <<251, 6, 3, 60, 16, 253, 128, 118>>,
  \* EI; LD HL,6100; LD DE,6102; LD BC,4; LDIR; DI; INC A; INC B; EI; CALL sub; HALT; sub: INC A; RET
  <<251, 33, 0, 97, 17, 2, 97, 1, 4, 0, 237, 176, 243, 60, 4, 251, 205, 20, 1, 118, 60, 201>>,
  \* EI; LD HL,6100; LD BC,5; LD A,3; CPIR; HALT
  <<251, 33, 0, 97, 1, 5, 0, 62, 3, 237, 177, 118>>,
  \* EI; LD HL,6100; LD B,3; LD C,10h; OTIR; DI; HALT         (ends with interrupts disabled)
  <<251, 33, 0, 97, 6, 3, 14, 16, 237, 179, 243, 118>>,
  \* EI; PUSH BC; POP DE; EX AF,AF'; NEG; HALT
  <<251, 197, 209, 8, 237, 68, 118>> >>

Kinds == <<[t |-> "nmi"], [t |-> "int", d |-> <<>>], [t |-> "int", d |-> <<16>>], [t |-> "int", d |-> <<17>>],
           [t |-> "int", d |-> <<255>>], [t |-> "int", d |-> <<205, 56, 0>>]>>
\* the mode the program runs in for request kind j
ModeOf(j) == CASE j \in {1, 2} -> 1 [] j \in {3, 4} -> 2 [] OTHER -> 0

Start(p, j) == [Ctx0 EXCEPT !.m = At(256, Progs[p]) @@ Handlers @@ Data, !.r.IM = ModeOf(j)]

AcceptTags == {"NMI", "INT1", "INT2", "INT0 z80", "INT0 as-coded", "INT empty"}
Only(c) == LET s == StepSetM(c, Int0)
               acc == {o \in s : o.tag \in AcceptTags}
               exe == s \ acc
           IN IF Cardinality(s) = 1 THEN CHOOSE o \in s : TRUE
              ELSE IF EiDelay THEN CHOOSE o \in exe : Cardinality(exe) = 1
              ELSE CHOOSE o \in acc : Cardinality(acc) = 1
Parked(c, o) == /\ o.r.PC = c.r.PC /\ Peek(o, o.r.PC) = 118 /\ o.pend = c.pend
                /\ (o.pend.t = "none" \/ (o.pend.t = "int" /\ ~o.r.IFF1))

\* Steps until parked on the final HALT; inject the request before Step k (k = -1: never)
RECURSIVE Go(_, _, _, _, _)
Go(c, i, k, req, fuel) ==
  LET c1 == IF i = k THEN [c EXCEPT !.pend = req] ELSE c
      o == Only(c1)
  IN IF fuel = 0 THEN [c |-> c1, n |-> -1]
     ELSE IF Parked(c1, o) /\ i > k THEN [c |-> o, n |-> i + 1]
     ELSE Go(o, i + 1, k, req, fuel - 1)

Undisturbed(p, j) == Go(Start(p, j), 0, -1, None, 300)
Interrupted(p, j, k) == Go(Start(p, j), 0, k, Kinds[j], 400)

TransparentAt(p, j, k) ==
  LET a == Undisturbed(p, j)  b == Interrupted(p, j, k)
  IN a.n > 0 /\ b.n > 0 /\ Transparent(a.c, b.c)

Cases == {<<p, j, k>> \in (1 .. Len(Progs)) \X (1 .. Len(Kinds)) \X (0 .. 60) : k <= Undisturbed(p, j).n}
Theorem == \A t \in Cases : TransparentAt(t[1], t[2], t[3])
Broken == {t \in Cases : ~TransparentAt(t[1], t[2], t[3])}
ASSUME PrintT(<<"TRANSP-RESULT", Int0, EiDelay, Cardinality(Cases), Cardinality(Broken),
                IF Broken = {} THEN <<>> ELSE CHOOSE t \in Broken : TRUE>>)
=============================================================================
