------------------------------- MODULE MC_Int -------------------------------
(***************************************************************************)
(* C06 on the specification: the interrupt logic explored exhaustively by   *)
(* TLC over the control bits.  Initial states: IFF1 x IFF2 x IM {0,1,2,3} x *)
(* halted/running x pending {none, NMI, maskable with no data / RST /       *)
(* CALL nn / even and odd vector} x PC/SP placements (incl. wrap) x I.      *)
(* Environment alphabet: FeedStep of NOP, EI, DI, RETN, RETI, RET, HALT,    *)
(* IM 0/1/2, LD A,I, PUSH AF, POP AF and Raise of the request kinds, up to  *)
(* MaxOps actions (nesting of NMI inside maskable handlers, requests raised *)
(* while disabled).  Properties are action formulas over (c, c').           *)
(*                                                                           *)
(* Mechanism G: every explored FeedStep edge is written as a scenario       *)
(* (pre-state + fed instruction) that the harness replays on the real CPU.  *)
(***************************************************************************)
EXTENDS Z80, Json, IOUtils, CSV, SequencesExt

CONSTANTS MaxOps
VARIABLE k
vars == <<c, k>>

Shard == atoi(IOEnv.SHARD)
NShards == atoi(IOEnv.NSHARDS)
DumpFile == IOEnv.DUMPFILE

Feeds == {<<0>>, <<251>>, <<243>>, <<237, 69>>, <<237, 77>>, <<201>>, <<118>>, <<237, 70>>, <<237, 86>>, <<237, 94>>,
          <<237, 87>>, <<245>>, <<241>>}
Reqs == {[t |-> "nmi"], [t |-> "int", d |-> <<>>], [t |-> "int", d |-> <<255>>], [t |-> "int", d |-> <<205, 52, 18>>],
         [t |-> "int", d |-> <<128>>], [t |-> "int", d |-> <<129>>]}

Regs0 == [A |-> 10, F |-> 85, B |-> 17, C |-> 34, D |-> 51, E |-> 68, H |-> 64, L |-> 16,
          A_ |-> 1, F_ |-> 2, B_ |-> 3, C_ |-> 4, D_ |-> 5, E_ |-> 6, H_ |-> 7, L_ |-> 8,
          IXH |-> 80, IXL |-> 32, IYH |-> 96, IYL |-> 48, SP |-> 32768, PC |-> 256, I |-> 0, R |-> 10,
          IFF1 |-> FALSE, IFF2 |-> FALSE, IM |-> 0]
Ctx0 == [r |-> Regs0, m |-> <<>>, dev |-> [mk |-> "hash", seed |-> 11, val |-> 0, len |-> 65536],
         io |-> [ik |-> "hash", seed |-> 3, len |-> 0], iom |-> <<>>, nin |-> 0, seen |-> <<>>, rd |-> <<>>, wr |-> <<>>, pio |-> <<>>,
         halt |-> FALSE, hc |-> <<0, 0>>, ovl |-> NoOvl, v |-> 0, u |-> 0, ralt |-> FALSE, tag |-> "",
         pend |-> None, aei |-> FALSE, rslack |-> 0]

Place == {<<256, 32768>>, <<65535, 1>>, <<0, 65535>>}
Inits == { [Ctx0 EXCEPT !.r.IFF1 = t[1], !.r.IFF2 = t[2], !.r.IM = t[3], !.halt = t[4], !.pend = t[5],
                        !.r.PC = t[6][1], !.r.SP = t[6][2], !.r.I = t[7]]
           : t \in BOOLEAN \X BOOLEAN \X {0, 1, 2, 3} \X BOOLEAN \X (Reqs \cup {None}) \X Place \X {0, 128} }
InitSeq == SetToSeq(Inits)
Init == /\ k = 0 /\ \E i \in 1 .. Len(InitSeq) : i % NShards = Shard /\ c = InitSeq[i]

RegOrder == <<"A", "F", "B", "C", "D", "E", "H", "L", "A_", "F_", "B_", "C_", "D_", "E_", "H_", "L_",
              "IXH", "IXL", "IYH", "IYL", "SP", "PC", "I", "R">>
B2I(b) == IF b THEN 1 ELSE 0
PendEnc(p) == IF p.t = "none" THEN <<>> ELSE IF p.t = "nmi" THEN <<0>> ELSE <<1>> \o p.d
ScenOf(x, code) ==
  [init |-> [r |-> [i \in 1 .. 27 |-> IF i <= 24 THEN x.r[RegOrder[i]]
                                      ELSE IF i = 25 THEN B2I(x.r.IFF1) ELSE IF i = 26 THEN B2I(x.r.IFF2) ELSE x.r.IM],
             h |-> B2I(x.halt), dev |-> <<"hash", x.dev.seed, 0, 65536>>, io |-> <<"hash", x.io.seed, 0>>,
             cells |-> [i \in 1 .. Cardinality(DOMAIN x.m) |-> <<SetToSeq(DOMAIN x.m)[i], x.m[SetToSeq(DOMAIN x.m)[i]]>>],
             iocells |-> <<>>, pend |-> PendEnc(x.pend)],
   ops |-> <<<<"f", code>>>>,
   \* the allowed results of this edge, for direct comparison by the harness (mechanism G)
   exp |-> LET outs == SetToSeq(StepSet(PlaceAtPC(x, code)))
           IN [j \in 1 .. Len(outs) |->
                 LET o == outs[j]
                 IN [r |-> [i \in 1 .. 27 |-> IF i <= 24 THEN o.r[RegOrder[i]]
                                               ELSE IF i = 25 THEN B2I(o.r.IFF1) ELSE IF i = 26 THEN B2I(o.r.IFF2) ELSE o.r.IM],
                     u |-> o.u, rset |-> SetToSeq(RAllowed(o)), h |-> B2I(o.halt), pend |-> PendEnc(o.pend),
                     hcd |-> <<o.hc[1] - x.hc[1], o.hc[2] - x.hc[2]>>, rd |-> o.rd, wr |-> o.wr, pio |-> o.pio,
                     tag |-> o.tag]]]
Sample == atoi(IOEnv.SAMPLE)
Dump(x, code) == DumpFile = "" \/ (Sample > 1 /\ (x.r.R + x.r.SP + Len(code) + k * 7 + x.r.PC) % Sample # 0)
                 \/ CSVWrite("%1$s", <<ToJson(ScenOf(x, code))>>, DumpFile)

Next == /\ k < MaxOps /\ k' = k + 1
        /\ \/ \E code \in Feeds : FeedStep(code) /\ Dump(c, code)
           \/ \E q \in Reqs : c.pend = None /\ Raise(q)
Spec == Init /\ [][Next]_vars

----------------------------------------------------------------------------
(* C06 as action properties of the specification *)
IsStep == c'.pend = c.pend \/ c'.pend = None        \* (Raise changes pend from none)
Stepped == ~(c.pend = None /\ c'.pend # None)
Retired == c.pend # None /\ c'.pend = None

\* a maskable request is accepted only if IFF1 is set (and the mode is 0..2); both flip-flops are then clear
MaskableOnlyIfEnabled == [][(Stepped /\ c.pend.t = "int" /\ Retired) =>
                              (/\ c.r.IFF1 /\ c.r.IM \in {0, 1, 2}
                               \* (a request without the data byte its mode needs is retired with no effect)
                               /\ (c'.tag # "INT empty" => ~c'.r.IFF1 /\ ~c'.r.IFF2))]_vars
\* an NMI is always accepted: PC pushed, PC = 0066, IFF2 takes the old IFF1, IFF1 cleared
NmiAlways == [][(Stepped /\ c.pend.t = "nmi") =>
                  (/\ c'.pend = None /\ c'.r.PC = 102 /\ c'.r.IFF2 = c.r.IFF1 /\ ~c'.r.IFF1
                   /\ c'.r.SP = W(c.r.SP - 2)
                   /\ Peek(c', W(c.r.SP - 1)) = HiB(c.r.PC) /\ Peek(c', W(c.r.SP - 2)) = LoB(c.r.PC))]_vars
\* a refused maskable request changes nothing about itself: it stays pending
RefusedStays == [][(Stepped /\ c.pend.t = "int" /\ (~c.r.IFF1 \/ c.r.IM \notin {0, 1, 2})) => c'.pend = c.pend]_vars
\* mode 1 -> 0038, mode 2 -> the word at I*256 + (vector with bit 0 clear), PC pushed
Dispatch == [][(Stepped /\ c.pend.t = "int" /\ Retired /\ c'.tag \in {"INT1", "INT2"}) =>
                 (/\ c'.r.SP = W(c.r.SP - 2)
                  /\ Peek(c', W(c.r.SP - 1)) = HiB(c.r.PC) /\ Peek(c', W(c.r.SP - 2)) = LoB(c.r.PC)
                  /\ (c.r.IM = 1 => c'.r.PC = 56)
                  /\ (c.r.IM = 2 => LET v == c.pend.d[1]  a == Mk16(c.r.I, v - (v % 2))
                                    IN c'.r.PC = Mk16(Peek(c, W(a + 1)), Peek(c, a))))]_vars
\* handler notifications: exactly one per executed RETN / RETI, never otherwise
Handlers == [][Stepped => (/\ c'.hc[1] = c.hc[1] + (IF c'.tag = "RETN" /\ ~Retired THEN 1 ELSE 0)
                           /\ c'.hc[2] = c.hc[2] + (IF c'.tag = "RETI" /\ ~Retired THEN 1 ELSE 0))]_vars
\* RETN copies IFF2 into IFF1; EI / DI set / clear both
FlipFlops == [][(Stepped /\ ~Retired) =>
                  (/\ (c'.tag = "RETN" => c'.r.IFF1 = c.r.IFF2 /\ c'.r.IFF2 = c.r.IFF2)
                   /\ (c'.tag = "EI" => c'.r.IFF1 /\ c'.r.IFF2)
                   /\ (c'.tag = "DI" => ~c'.r.IFF1 /\ ~c'.r.IFF2))]_vars
\* no program instruction runs in an accepting Step (modes 1, 2 and NMI): nothing but PC, SP, R, IFF changes
NoInstrOnAccept == [][(Stepped /\ Retired /\ c'.tag \in {"NMI", "INT1", "INT2"}) =>
                        (\A n \in DOMAIN c.r : n \in {"PC", "SP", "R", "IFF1", "IFF2"} \/ c'.r[n] = c.r[n])]_vars
=============================================================================
