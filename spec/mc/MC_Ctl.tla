------------------------------- MODULE MC_Ctl -------------------------------
(***************************************************************************)
(* C04 on the specification: theorems about jumps, calls, returns and the  *)
(* stack, checked by TLC for all 256 F values x every conditional opcode   *)
(* (all 256 B for DJNZ) x PC/SP/target/offset placements including wrap    *)
(* and stack bytes overlapping the instruction, and the two-step theorems  *)
(* CALL;RET and PUSH;POP.  The binding to the code is the trace validation *)
(* of the same families (harness driver "ctl").                            *)
(***************************************************************************)
EXTENDS Z80Int, FiniteSets

Regs0 == [A |-> 10, F |-> 0, B |-> 17, C |-> 34, D |-> 51, E |-> 68, H |-> 64, L |-> 16,
          A_ |-> 1, F_ |-> 2, B_ |-> 3, C_ |-> 4, D_ |-> 5, E_ |-> 6, H_ |-> 7, L_ |-> 8,
          IXH |-> 80, IXL |-> 32, IYH |-> 96, IYL |-> 48, SP |-> 61440, PC |-> 256, I |-> 9, R |-> 10,
          IFF1 |-> FALSE, IFF2 |-> TRUE, IM |-> 1]
Ctx0 == [r |-> Regs0, m |-> <<>>, dev |-> [mk |-> "hash", seed |-> 7, val |-> 0, len |-> 65536],
         io |-> [ik |-> "nil", seed |-> 0, len |-> 0], iom |-> <<>>, nin |-> 0, seen |-> <<>>, rd |-> <<>>, wr |-> <<>>, pio |-> <<>>,
         halt |-> FALSE, hc |-> <<0, 0>>, ovl |-> NoOvl, v |-> 0, u |-> 0, ralt |-> FALSE, tag |-> "",
         pend |-> None, aei |-> FALSE, rslack |-> 0]

PCs == {0, 1, 32766, 65533, 65534, 65535}
SPsFor(pc) == {0, 1, 2, 32768, 65535, W(pc + 1), W(pc + 2)}
NNs == {0, 4660, 65535}
Es == {128, 254, 255, 0, 1, 127}

\* context with code bytes at PC (wrapping), given F, B, PC, SP
With(code, pc, sp, f, b) ==
  [Ctx0 EXCEPT !.r.PC = pc, !.r.SP = sp, !.r.F = f, !.r.B = b,
               !.m = [a \in {W(pc + i - 1) : i \in 1 .. Len(code)} |->
                        code[CHOOSE i \in 1 .. Len(code) : W(pc + i - 1) = a]]]
Only(c) == LET s == StepSet(c) IN CHOOSE o \in s : Cardinality(s) = 1
SameExcept(o, c, names) == \A n \in DOMAIN c.r : n \in names \/ o.r[n] = c.r[n]

\* JP cc,nn / CALL cc,nn / RET cc for all F
CondForms == \A f \in Byte, y \in 0 .. 7, pc \in PCs, nn \in NNs :
  LET taken == Cond(y, f)
      sp == CHOOSE s \in SPsFor(pc) : TRUE
  IN /\ LET c == With(<<194 + y * 8, LoB(nn), HiB(nn)>>, pc, sp, f, 0)  o == Only(c)     \* JP cc
        IN /\ o.r.PC = (IF taken THEN nn ELSE W(pc + 3)) /\ o.wr = <<>> /\ Len(o.rd) = 3
           /\ SameExcept(o, c, {"PC", "R"}) /\ o.r.F = f
     /\ \A s2 \in SPsFor(pc) :
        LET c == With(<<196 + y * 8, LoB(nn), HiB(nn)>>, pc, s2, f, 0)  o == Only(c)      \* CALL cc
        IN IF taken
           THEN /\ o.r.PC = nn /\ o.r.SP = W(s2 - 2)
                /\ Peek(o, W(s2 - 1)) = HiB(W(pc + 3)) /\ Peek(o, W(s2 - 2)) = LoB(W(pc + 3))
                /\ SameExcept(o, c, {"PC", "SP", "R"}) /\ Len(o.wr) = 2
           ELSE /\ o.r.PC = W(pc + 3) /\ o.wr = <<>> /\ Len(o.rd) = 3 /\ SameExcept(o, c, {"PC", "R"})
     /\ \A s2 \in SPsFor(pc) :
        LET c == With(<<192 + y * 8>>, pc, s2, f, 0)  o == Only(c)                          \* RET cc
        IN IF taken
           THEN /\ o.r.PC = Mk16(Peek(c, W(s2 + 1)), Peek(c, s2)) /\ o.r.SP = W(s2 + 2)
                /\ SameExcept(o, c, {"PC", "SP", "R"}) /\ o.wr = <<>>
           ELSE /\ o.r.PC = W(pc + 1) /\ o.rd = <<pc>> /\ SameExcept(o, c, {"PC", "R"})

\* JR cc,e for all F; DJNZ for all B
RelForms == \A pc \in PCs, e \in Es :
  /\ \A f \in Byte, y \in 0 .. 3 :
       LET c == With(<<32 + y * 8, e>>, pc, 4096, f, 0)  o == Only(c)
       IN /\ o.r.PC = (IF Cond(y, f) THEN W(pc + 2 + SExt(e)) ELSE W(pc + 2))
          /\ SameExcept(o, c, {"PC", "R"}) /\ o.wr = <<>>
  /\ \A b \in Byte :
       LET c == With(<<16, e>>, pc, 4096, 85, b)  o == Only(c)
       IN /\ o.r.B = (b - 1) % 256
          /\ o.r.PC = (IF (b - 1) % 256 # 0 THEN W(pc + 2 + SExt(e)) ELSE W(pc + 2))
          /\ SameExcept(o, c, {"PC", "R", "B"})
  /\ LET c == With(<<24, e>>, pc, 4096, 255, 0)  o == Only(c)
     IN o.r.PC = W(pc + 2 + SExt(e)) /\ SameExcept(o, c, {"PC", "R"})

\* RST, JP (HL)/(IX)/(IY)
Others == \A pc \in PCs, f \in {0, 255, 85} :
  /\ \A y \in 0 .. 7, sp \in SPsFor(pc) :
       LET c == With(<<199 + y * 8>>, pc, sp, f, 0)  o == Only(c)
       IN /\ o.r.PC = y * 8 /\ o.r.SP = W(sp - 2)
          /\ Peek(o, W(sp - 1)) = HiB(W(pc + 1)) /\ Peek(o, W(sp - 2)) = LoB(W(pc + 1))
          /\ SameExcept(o, c, {"PC", "SP", "R"})
  /\ LET o == Only(With(<<233>>, pc, 0, f, 0)) IN o.r.PC = Mk16(64, 16) /\ o.rd = <<pc>>
  /\ LET o == Only(With(<<221, 233>>, pc, 0, f, 0)) IN o.r.PC = Mk16(80, 32)
  /\ LET o == Only(With(<<253, 233>>, pc, 0, f, 0)) IN o.r.PC = Mk16(96, 48)

\* two-step theorems
Step2(c) == Only([Only(c) EXCEPT !.rd = <<>>])
CallRet == \A pc \in PCs, f \in {0, 255} : \A sp \in SPsFor(pc) :
  LET nn == IF pc \in {0, 1} THEN 16384 ELSE 8
      c0 == With(<<205, LoB(nn), HiB(nn)>>, pc, sp, f, 0)
      c == [c0 EXCEPT !.m = (nn :> 201) @@ @]
      o == Step2(c)
  IN \* CALL followed by RET resumes right after the CALL with SP restored (unless the
     \* pushed bytes landed on the RET itself or the CALL's own operand)
     (W(sp - 1) # nn /\ W(sp - 2) # nn) => (o.r.PC = W(pc + 3) /\ o.r.SP = sp /\ o.r.F = f)
PushPop == \A pc \in PCs, sp \in {0, 1, 2, 32768, 65535}, q \in 0 .. 5 :
  LET push == <<<<197>>, <<213>>, <<229>>, <<245>>, <<221, 229>>, <<253, 229>>>>[q + 1]
      pop == <<<<193>>, <<209>>, <<225>>, <<241>>, <<221, 225>>, <<253, 225>>>>[q + 1]
      c == With(push \o pop, pc, sp, 165, 17)
      o == Step2(c)
      n == Len(push) + Len(pop)
      overlaps == \E i \in 0 .. (n - 1) : W(pc + i) \in {W(sp - 1), W(sp - 2)}
  IN ~overlaps => (SameExcept(o, c, {"PC", "R"}) /\ o.r.PC = W(pc + n) /\ o.r.F = 165)

Points == 256 * 8 * 6 * 3 * 15 + 6 * 6 * (256 * 4 + 256 + 1) + 6 * 3 * (8 * 7 + 3) + 6 * 2 * 7 + 6 * 5 * 6
ASSUME T1 == CondForms
ASSUME T2 == RelForms
ASSUME T3 == Others
ASSUME T4 == CallRet
ASSUME T5 == PushPop
ASSUME PrintT(<<"CTL-THEOREMS-OK", Points>>)
=============================================================================
