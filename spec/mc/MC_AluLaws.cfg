
