
