SPECIFICATION Spec
CONSTANTS MaxOps = 2
PROPERTIES MaskableOnlyIfEnabled NmiAlways RefusedStays Dispatch Handlers FlipFlops NoInstrOnAccept
CHECK_DEADLOCK FALSE
