------------------------------ MODULE MC_Block ------------------------------
(***************************************************************************)
(* TLC: for small counts, overlap distances -3..+3, ranges straddling      *)
(* FFFF/0000 and small random memories, iterating the per-Step semantics   *)
(* (StepSet) until PC leaves the instruction equals the closed form        *)
(* Z80Block!Whole - number of Steps, pointers, counters, flags, PC, the    *)
(* final content of every written address and the port log.                *)
(***************************************************************************)
EXTENDS Z80Block, FiniteSets

Regs0 == [A |-> 10, F |-> 0, B |-> 0, C |-> 3, D |-> 0, E |-> 0, H |-> 0, L |-> 0,
          A_ |-> 1, F_ |-> 2, B_ |-> 3, C_ |-> 4, D_ |-> 5, E_ |-> 6, H_ |-> 7, L_ |-> 8,
          IXH |-> 80, IXL |-> 32, IYH |-> 96, IYL |-> 48, SP |-> 61440, PC |-> 256, I |-> 9, R |-> 10,
          IFF1 |-> FALSE, IFF2 |-> TRUE, IM |-> 1]
Ctx0 == [r |-> Regs0, m |-> <<>>, dev |-> [mk |-> "hash", seed |-> 3, val |-> 0, len |-> 65536],
         io |-> [ik |-> "hash", seed |-> 5, len |-> 0], iom |-> <<>>, nin |-> 0, seen |-> <<>>, rd |-> <<>>, wr |-> <<>>, pio |-> <<>>,
         halt |-> FALSE, hc |-> <<0, 0>>, ovl |-> NoOvl, v |-> 0, u |-> 0, ralt |-> FALSE, tag |-> "",
         pend |-> None, aei |-> FALSE, rslack |-> 0]

Ops == {176, 184, 177, 185, 178, 186, 179, 187}
Cnt == 1 .. 6
HLs == {16384, 65533, 65535, 0, 2}
Dist == {-3, -2, -1, 0, 1, 2, 3, 100}
Accs == {0, 10}

Start(op, n, hl, d, a) ==
  LET ld == op \in {176, 184}
      c1 == [Ctx0 EXCEPT !.r.A = a, !.r.H = HiB(hl), !.r.L = LoB(hl),
                         !.r.B = IF op \in {178, 186, 179, 187} THEN n ELSE 0,
                         !.r.C = IF op \in {178, 186, 179, 187} THEN 7 ELSE n,
                         !.r.D = HiB(W(hl + d)), !.r.E = LoB(W(hl + d))]
      \* a few cells equal to A so that CPIR finds matches at different positions
  IN [c1 EXCEPT !.m = (256 :> 237) @@ (257 :> op) @@ (W(hl + 2) :> 10) @@ (W(hl - 2) :> 10)]

RECURSIVE Iterate(_, _, _)
Iterate(c, acc, fuel) ==          \* Steps until PC leaves the instruction: [c, steps, pio]
  LET s == StepSet(c)
      o == CHOOSE o \in s : TRUE
      acc2 == [steps |-> acc.steps + 1, pio |-> acc.pio \o o.pio]
  IN IF Cardinality(s) # 1 THEN [c |-> c, steps |-> -1, pio |-> <<>>]
     ELSE IF o.r.PC # 256 \/ fuel = 0 THEN [c |-> o, steps |-> acc2.steps, pio |-> acc2.pio]
     ELSE Iterate(o, acc2, fuel - 1)

Agree(c) ==
  LET w == Whole(c)
      it == Iterate(c, [steps |-> 0, pio |-> <<>>], 100)
      o == it.c
  IN Applicable(c) =>
       /\ it.steps = w.steps /\ o.r.PC = w.pc
       /\ HL(o) = w.hl /\ DE(o) = w.de /\ o.r.B = w.b
       /\ (BlockKind(c) \in {"LDIR", "LDDR", "CPIR", "CPDR"} => BC(o) = w.bc)
       /\ o.r.A = w.a /\ ((o.r.F ^^ w.f) & (255 - w.u)) = 0
       /\ it.pio = w.pio
       /\ \A a \in w.written : Peek(o, a) = FinalAt(c, a)
       /\ \A a \in DOMAIN o.m : a \in w.written \/ Peek(o, a) = Peek(c, a)
       /\ o.r.R = IncR(c.r.R, 2 * w.steps)

Cases == {<<op, n, hl, d, a>> \in Ops \X Cnt \X HLs \X Dist \X Accs : TRUE}
AllAgree == \A t \in Cases : Agree(Start(t[1], t[2], t[3], t[4], t[5]))
Applicables == Cardinality({t \in Cases : Applicable(Start(t[1], t[2], t[3], t[4], t[5]))})

ASSUME AllAgree
ASSUME PrintT(<<"BLOCK-THEOREM-OK", Cardinality(Cases), Applicables>>)
=============================================================================
