
