CONSTANTS
  Int0 = "z80"
  EiDelay = FALSE
