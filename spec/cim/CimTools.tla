------------------------------ MODULE CimTools ------------------------------
(***************************************************************************)
(* C19: the MSX containers cim2bin and cim2cas must emit, as functions of   *)
(* the input image, the load offset and (for the cassette) the name.       *)
(***************************************************************************)
EXTENDS Integers, Sequences, Json, IOUtils, TLC

LE16(w) == <<w % 256, (w \div 256) % 256>>
W16(x) == x % 65536

\* BSAVE container: FE, start, end = start + length - 1, exec = start, then the image
Cim2Bin(img, off) == <<254>> \o LE16(off) \o LE16(W16(off + Len(img) - 1)) \o LE16(off) \o img

\* cassette: sync header, ten D0 type bytes, six-character name (truncated or padded with
\* spaces), sync header again, start, end, exec, image
SyncHeader == <<31, 166, 222, 186, 204, 19, 125, 116>>
TypeBin == [i \in 1 .. 10 |-> 208]
Pad6(name) == [i \in 1 .. 6 |-> IF i <= Len(name) THEN name[i] ELSE 32]
Cim2Cas(img, off, name) ==
  SyncHeader \o TypeBin \o Pad6(name) \o SyncHeader
  \o LE16(off) \o LE16(W16(off + Len(img) - 1)) \o LE16(off) \o img

Cases == JsonDeserialize(IOEnv.CASES)
\* name = the -nam argument, or (when empty / not given) the -cim argument as given
NameOf(c) == IF Len(c.nam) = 0 THEN c.cimarg ELSE c.nam
Expected(c) == IF c.tool = "bin" THEN Cim2Bin(c.img, c.off) ELSE Cim2Cas(c.img, c.off, NameOf(c))
Min(x, y) == IF x < y THEN x ELSE y
\* 1-based index of the first differing byte (0 = equal)
FirstDiff(a, b) ==
  IF a = b THEN 0
  ELSE LET d == {i \in 1 .. Min(Len(a), Len(b)) : a[i] # b[i]}
       IN IF d = {} THEN Min(Len(a), Len(b)) + 1 ELSE CHOOSE i \in d : \A j \in d : i <= j
Bad == {i \in 1 .. Len(Cases) : Cases[i].exit # 0 \/ Expected(Cases[i]) # Cases[i].out}
ASSUME PrintT(<<"CIM-RESULT", ToJson([n |-> Len(Cases),
                                     bad |-> [i \in Bad |-> IF Cases[i].exit # 0 THEN -1
                                                            ELSE FirstDiff(Expected(Cases[i]), Cases[i].out)]])>>)
=============================================================================
