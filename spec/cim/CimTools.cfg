
