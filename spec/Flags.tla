-------------------------------- MODULE Flags --------------------------------
(***************************************************************************)
(* C16: the flag and register accessors of the public API.                  *)
(*   GetFlag(F, m): some named bit is set;  SetFlag / ResetFlag: exactly    *)
(*   the named bits; the eight flag constants; a 16-bit register is         *)
(*   Hi * 256 + Lo.                                                          *)
(***************************************************************************)
EXTENDS Z80Bits

FlagConst == [C |-> 1, N |-> 2, PV |-> 4, F3 |-> 8, H |-> 16, F5 |-> 32, Z |-> 64, S |-> 128]

\* written bit by bit, independently of the Bitwise module
BitsOf(x) == {n \in 0 .. 7 : BitOf(x, n) = 1}
FromBits(s) == LET RECURSIVE sum(_)
                   sum(n) == IF n > 7 THEN 0 ELSE (IF n \in s THEN P2(n) ELSE 0) + sum(n + 1)
               IN sum(0)
GetFlag(f, m)   == BitsOf(f) \cap BitsOf(m) # {}
SetFlag(f, m)   == FromBits(BitsOf(f) \cup BitsOf(m))
ResetFlag(f, m) == FromBits(BitsOf(f) \ BitsOf(m))

RegHi(w) == w \div 256
RegLo(w) == w % 256
RegU16(hi, lo) == hi * 256 + lo
=============================================================================
